/* F1 (C04): sha1crypt salt length unbounded -> snprintf's untruncated return used as write offset.
   Build: cc -I/repo f1_sha1crypt_long_salt.c /repo/.libs/libcrypt.a -o f1 && ./f1
   exit 0 = property holds (setting/input fields untouched, result NUL-terminated inside output or call failed) */
#include <crypt.h>
#include <stdio.h>
#include <string.h>
#include <stdlib.h>
int main(void)
{
  struct crypt_data *d = calloc(1, sizeof *d);
  char setting[600] = "$sha1$100$";
  memset(setting + strlen(setting), 'a', 400);
  memset(d->setting, 0x5a, sizeof d->setting);
  memset(d->input, 0x5a, sizeof d->input);
  char *r = crypt_rn("pw", setting, d, sizeof *d);
  int bad = 0;
  for (size_t i = 0; i < sizeof d->setting; i++) if ((unsigned char)d->setting[i] != 0x5a) bad++;
  for (size_t i = 0; i < sizeof d->input; i++) if ((unsigned char)d->input[i] != 0x5a) bad++;
  int nul = memchr(d->output, 0, sizeof d->output) != NULL;
  printf("result=%s clobbered_app_bytes=%d output_nul_terminated=%d\n", r ? "hash" : "NULL", bad, nul);
  return (bad || !nul) ? 1 : 0;
}
