/* F2 (C13): crypt_gensalt_rn aborts the process at exact-fit output_size for $1$/$5$/$6$.
   exit 0 = no abort and either success or NULL+ERANGE for each probe. */
#include <crypt.h>
#include <stdio.h>
#include <errno.h>
#include <string.h>
int main(void)
{
  static const char rb[16] = "0123456789abcdef";
  char out[64];
  struct { const char *p; unsigned long c; int sz; } t[] = {
    {"$6$", 0, 8}, {"$5$", 0, 8}, {"$1$", 0, 8}, {"$6$", 1000, 19}, {"$6$", 5001, 19}, {"$5$", 10000, 20}, {"$6$", 100000, 21}};
  for (unsigned i = 0; i < sizeof t / sizeof t[0]; i++) {
    errno = 0;
    char *r = crypt_gensalt_rn(t[i].p, t[i].c, rb, 16, out, t[i].sz);
    printf("%s count=%lu size=%d -> %s errno=%d\n", t[i].p, t[i].c, t[i].sz, r ? r : "NULL", errno);
    if (r && (int)strlen(r) >= t[i].sz) return 1;
    if (!r && errno != ERANGE) return 1;
  }
  return 0;
}
