/* F3 (C12/C10): nrbytes == 3 passes the minimum check but yields a salt-less setting "$6$".
   exit 0 = every success has a non-empty salt. */
#include <crypt.h>
#include <stdio.h>
#include <errno.h>
#include <string.h>
int main(void)
{
  char out[192];
  const char *p[] = {"$1$", "$5$", "$6$"};
  int bad = 0;
  for (int i = 0; i < 3; i++)
    for (int n = 0; n <= 6; n++) {
      errno = 0;
      char *r = crypt_gensalt_rn(p[i], 0, "abcdefgh", n, out, sizeof out);
      printf("%s nrbytes=%d -> %s errno=%d\n", p[i], n, r ? r : "NULL", errno);
      if (r && strlen(r) <= 3) bad++;
      if (!r && errno != EINVAL) bad++;
    }
  return bad ? 1 : 0;
}
