/* F4 (C11): crypt_gensalt for "$md5" with a count near the top of its range emits
   rounds up to 4294967294; crypt adds the 4096 basic rounds in 32-bit arithmetic, so the
   effective cost wraps to a few thousand rounds - cheaper than the method's minimum (4096).
   exit 0 = every generated rounds value r satisfies 4096 + r <= UINT32_MAX (documented max 4294963199). */
#include <crypt.h>
#include <stdio.h>
#include <stdlib.h>
#include <string.h>
#include <time.h>
int main(void)
{
  unsigned char rb[8] = {0xff, 0xff, 1, 2, 3, 4, 5, 6};
  char out[192];
  unsigned long counts[] = {4294901759UL, 4294963199UL, 4294967295UL, ~0UL};
  int bad = 0;
  for (unsigned i = 0; i < 4; i++) {
    char *s = crypt_gensalt_rn("$md5", counts[i], (const char *)rb, 8, out, sizeof out);
    if (!s) { printf("count=%lu -> NULL\n", counts[i]); continue; }
    unsigned long r = strtoul(strstr(s, "rounds=") + 7, 0, 10);
    printf("count=%lu -> %s  effective=(4096+%lu) mod 2^32 = %u\n", counts[i], s, r, (unsigned)(4096u + (unsigned)r));
    if (r > 4294963199UL) bad++;
  }
  if (bad) {
    /* show that crypt really applies the wrapped cost: it finishes at once */
    struct crypt_data d; memset(&d, 0, sizeof d);
    clock_t t0 = clock();
    char *h = crypt_r("pw", out, &d);
    double dt = (double)(clock() - t0) / CLOCKS_PER_SEC;
    printf("crypt_r with %s -> %s in %.3fs (4 billion rounds would take hours)\n", out, h ? h : "NULL", dt);
  }
  return bad ? 1 : 0;
}
