/* F5 (C01): a $7$ setting with a salt of 282..325 characters is hashed successfully, but the resulting hash H is then
   refused as a setting (ERANGE): crypt_scrypt_rn and crypt_yescrypt_rn size-check the *whole* setting string, hash
   included, although only the part in front of the hash is copied to the output.
   build: cc -I/repo findings/f5_scrypt_long_salt_roundtrip.c /repo/.libs/libcrypt.a -o /tmp/f5 && /tmp/f5
   exit 0: round trip holds for every salt length; exit 1: prints the failing lengths */
#include <crypt.h>
#include <errno.h>
#include <stdio.h>
#include <string.h>
int main(void)
{
  static struct crypt_data d1, d2;
  int bad = 0, first = -1, last = -1;
  for (int n = 0; n <= 330; n++)
    {
      char setting[400] = "$7$CU..../....";          /* N=2^?.. cheap parameters: N_log2 'C'=14? use small */
      setting[3] = '6';                                /* N_log2 = 8 */
      size_t l = strlen (setting);
      for (int i = 0; i < n; i++) setting[l + i] = "./0123456789ABCDEFGHIJKLMNOPQRSTUVWXYZabcdefghijklmnopqrstuvwxyz"[i % 64];
      setting[l + n] = 0;
      errno = 0;
      char *h = crypt_r ("pw", setting, &d1);
      if (!h || h[0] == '*') continue;               /* not accepted at all: nothing to round-trip */
      char H[400]; strcpy (H, h);
      errno = 0;
      char *h2 = crypt_r ("pw", H, &d2);
      if (!h2 || strcmp (h2, H))
        {
          if (first < 0) first = n;
          last = n; bad++;
          if (bad <= 2) printf ("salt length %d: crypt(pw, S) = %.30s... (%zu chars) but crypt(pw, H) = %s errno=%d\n", n, H, strlen (H), h2 ? h2 : "NULL", errno);
        }
    }
  if (bad) { printf ("round trip broken for %d salt lengths (%d..%d)\n", bad, first, last); return 1; }
  puts ("round trip holds for $7$ salts of 0..330 characters");
  return 0;
}
