"""FIPS PUB 46-3 (DES) base tables, typed in from the standard, and an independent derivation of the
lookup tables libxcrypt precomputes (semantics taken from the *definitions* of IP, IP^-1, PC-1, PC-2,
S1..S8 and P: "output bit n is input bit T[n]").  Shares no code with lib/gen-des-tables.c."""

IP = [58, 50, 42, 34, 26, 18, 10, 2, 60, 52, 44, 36, 28, 20, 12, 4,
      62, 54, 46, 38, 30, 22, 14, 6, 64, 56, 48, 40, 32, 24, 16, 8,
      57, 49, 41, 33, 25, 17, 9, 1, 59, 51, 43, 35, 27, 19, 11, 3,
      61, 53, 45, 37, 29, 21, 13, 5, 63, 55, 47, 39, 31, 23, 15, 7]

IP_INV = [40, 8, 48, 16, 56, 24, 64, 32, 39, 7, 47, 15, 55, 23, 63, 31,
          38, 6, 46, 14, 54, 22, 62, 30, 37, 5, 45, 13, 53, 21, 61, 29,
          36, 4, 44, 12, 52, 20, 60, 28, 35, 3, 43, 11, 51, 19, 59, 27,
          34, 2, 42, 10, 50, 18, 58, 26, 33, 1, 41, 9, 49, 17, 57, 25]

PC1 = [57, 49, 41, 33, 25, 17, 9, 1, 58, 50, 42, 34, 26, 18,
       10, 2, 59, 51, 43, 35, 27, 19, 11, 3, 60, 52, 44, 36,
       63, 55, 47, 39, 31, 23, 15, 7, 62, 54, 46, 38, 30, 22,
       14, 6, 61, 53, 45, 37, 29, 21, 13, 5, 28, 20, 12, 4]

PC2 = [14, 17, 11, 24, 1, 5, 3, 28, 15, 6, 21, 10,
       23, 19, 12, 4, 26, 8, 16, 7, 27, 20, 13, 2,
       41, 52, 31, 37, 47, 55, 30, 40, 51, 45, 33, 48,
       44, 49, 39, 56, 34, 53, 46, 42, 50, 36, 29, 32]

P = [16, 7, 20, 21, 29, 12, 28, 17, 1, 15, 23, 26, 5, 18, 31, 10,
     2, 8, 24, 14, 32, 27, 3, 9, 19, 13, 30, 6, 22, 11, 4, 25]

# S1..S8, each 4 rows x 16 columns as printed in the standard
S = [
    [[14, 4, 13, 1, 2, 15, 11, 8, 3, 10, 6, 12, 5, 9, 0, 7],
     [0, 15, 7, 4, 14, 2, 13, 1, 10, 6, 12, 11, 9, 5, 3, 8],
     [4, 1, 14, 8, 13, 6, 2, 11, 15, 12, 9, 7, 3, 10, 5, 0],
     [15, 12, 8, 2, 4, 9, 1, 7, 5, 11, 3, 14, 10, 0, 6, 13]],
    [[15, 1, 8, 14, 6, 11, 3, 4, 9, 7, 2, 13, 12, 0, 5, 10],
     [3, 13, 4, 7, 15, 2, 8, 14, 12, 0, 1, 10, 6, 9, 11, 5],
     [0, 14, 7, 11, 10, 4, 13, 1, 5, 8, 12, 6, 9, 3, 2, 15],
     [13, 8, 10, 1, 3, 15, 4, 2, 11, 6, 7, 12, 0, 5, 14, 9]],
    [[10, 0, 9, 14, 6, 3, 15, 5, 1, 13, 12, 7, 11, 4, 2, 8],
     [13, 7, 0, 9, 3, 4, 6, 10, 2, 8, 5, 14, 12, 11, 15, 1],
     [13, 6, 4, 9, 8, 15, 3, 0, 11, 1, 2, 12, 5, 10, 14, 7],
     [1, 10, 13, 0, 6, 9, 8, 7, 4, 15, 14, 3, 11, 5, 2, 12]],
    [[7, 13, 14, 3, 0, 6, 9, 10, 1, 2, 8, 5, 11, 12, 4, 15],
     [13, 8, 11, 5, 6, 15, 0, 3, 4, 7, 2, 12, 1, 10, 14, 9],
     [10, 6, 9, 0, 12, 11, 7, 13, 15, 1, 3, 14, 5, 2, 8, 4],
     [3, 15, 0, 6, 10, 1, 13, 8, 9, 4, 5, 11, 12, 7, 2, 14]],
    [[2, 12, 4, 1, 7, 10, 11, 6, 8, 5, 3, 15, 13, 0, 14, 9],
     [14, 11, 2, 12, 4, 7, 13, 1, 5, 0, 15, 10, 3, 9, 8, 6],
     [4, 2, 1, 11, 10, 13, 7, 8, 15, 9, 12, 5, 6, 3, 0, 14],
     [11, 8, 12, 7, 1, 14, 2, 13, 6, 15, 0, 9, 10, 4, 5, 3]],
    [[12, 1, 10, 15, 9, 2, 6, 8, 0, 13, 3, 4, 14, 7, 5, 11],
     [10, 15, 4, 2, 7, 12, 9, 5, 6, 1, 13, 14, 0, 11, 3, 8],
     [9, 14, 15, 5, 2, 8, 12, 3, 7, 0, 4, 10, 1, 13, 11, 6],
     [4, 3, 2, 12, 9, 5, 15, 10, 11, 14, 1, 7, 6, 0, 8, 13]],
    [[4, 11, 2, 14, 15, 0, 8, 13, 3, 12, 9, 7, 5, 10, 6, 1],
     [13, 0, 11, 7, 4, 9, 1, 10, 14, 3, 5, 12, 2, 15, 8, 6],
     [1, 4, 11, 13, 12, 3, 7, 14, 10, 15, 6, 8, 0, 5, 9, 2],
     [6, 11, 13, 8, 1, 4, 10, 7, 9, 5, 0, 15, 14, 2, 3, 12]],
    [[13, 2, 8, 4, 6, 15, 11, 1, 10, 9, 3, 14, 5, 0, 12, 7],
     [1, 15, 13, 8, 10, 3, 7, 4, 12, 5, 6, 11, 0, 14, 9, 2],
     [7, 11, 4, 1, 9, 12, 14, 2, 0, 6, 10, 13, 15, 3, 5, 8],
     [2, 1, 14, 7, 4, 10, 8, 13, 15, 12, 9, 0, 3, 5, 6, 11]],
]

KEY_SHIFTS = [1, 1, 2, 2, 2, 2, 2, 2, 1, 2, 2, 2, 2, 2, 2, 1]


def self_check():
    assert sorted(IP) == list(range(1, 65)) and sorted(IP_INV) == list(range(1, 65))
    # IP_INV is the inverse permutation of IP: applying IP then IP_INV is the identity
    for n in range(64):
        assert IP[IP_INV[n] - 1] == n + 1, n
    assert sorted(P) == list(range(1, 33))
    assert len(set(PC1)) == 56 and all(b % 8 != 0 for b in PC1)       # parity bits never selected
    assert len(set(PC2)) == 48 and max(PC2) <= 56
    for box in S:
        for row in box:
            assert sorted(row) == list(range(16))
    assert sum(KEY_SHIFTS) == 28


def sfun(box, x):
    """S-box `box` (0-based) applied to the 6-bit integer x (b1 = most significant bit)"""
    row = ((x >> 5) & 1) << 1 | (x & 1)
    col = (x >> 1) & 0xf
    return S[box][row][col]


def bit(width, pos):
    """mask of bit `pos` (0 = most significant) in a `width`-bit word"""
    return 1 << (width - 1 - pos)


def perm_masks(T, nin_groups, group_bits, value_bits, out_half, out_width):
    """OR-mask tables for a bit selection `out[n] = in[T[n]]`.  Input is cut into `nin_groups`
    groups of `group_bits` bits; the table index holds `value_bits` bits of the group, most significant first.
    Output bits < out_half go to the left table, others to the right; each table word is out_width bits."""
    where = {}
    for n, src in enumerate(T):
        where[src - 1] = n
    L = [[0] * (1 << value_bits) for _ in range(nin_groups)]
    Rr = [[0] * (1 << value_bits) for _ in range(nin_groups)]
    for k in range(nin_groups):
        for i in range(1 << value_bits):
            l = r = 0
            for j in range(value_bits):
                if i & (1 << (value_bits - 1 - j)):
                    inbit = group_bits * k + j
                    if inbit in where:
                        o = where[inbit]
                        if o < out_half:
                            l |= bit(out_width, o)
                        else:
                            r |= bit(out_width, o - out_half)
            L[k][i], Rr[k][i] = l, r
    return L, Rr


def derive():
    self_check()
    t = {}
    t["m_sbox"] = [[(sfun(2 * b, i) << 4) | sfun(2 * b + 1, j) for i in range(64) for j in range(64)] for b in range(4)]
    t["ip_maskl"], t["ip_maskr"] = perm_masks(IP, 8, 8, 8, 32, 32)
    t["fp_maskl"], t["fp_maskr"] = perm_masks(IP_INV, 8, 8, 8, 32, 32)
    # key bytes: 7 significant bits each (parity bit dropped); the tables keep 28-bit halves right-aligned in 32-bit words
    t["key_perm_maskl"], t["key_perm_maskr"] = perm_masks(PC1, 8, 8, 7, 28, 28)
    # C||D (56 bits) in 8 groups of 7 bits -> 48-bit round key as two 24-bit halves
    t["comp_maskl"], t["comp_maskr"] = perm_masks(PC2, 8, 7, 7, 24, 24)
    # P applied to each byte of the S-box layer output
    pl, pr = perm_masks(P, 4, 8, 8, 32, 32)
    t["psbox"] = pl
    return t
