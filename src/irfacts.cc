// irfacts: dump an LLVM module (bitcode) as JSON facts for the Python rule kit.
// Build: see Makefile.  Usage: irfacts file.bc > facts.json
#include "llvm/IR/Constants.h"
#include "llvm/IR/DataLayout.h"
#include "llvm/IR/DebugInfoMetadata.h"
#include "llvm/IR/Function.h"
#include "llvm/IR/GetElementPtrTypeIterator.h"
#include "llvm/IR/GlobalAlias.h"
#include "llvm/IR/InlineAsm.h"
#include "llvm/IR/Instructions.h"
#include "llvm/IR/IntrinsicInst.h"
#include "llvm/IR/LLVMContext.h"
#include "llvm/IR/Module.h"
#include "llvm/IR/Operator.h"
#include "llvm/IRReader/IRReader.h"
#include "llvm/Support/SourceMgr.h"
#include "llvm/Support/raw_ostream.h"
#include <map>
#include <set>
#include <string>
#include <vector>

using namespace llvm;

static std::string jesc(StringRef s) {
  std::string o;
  o.reserve(s.size() + 2);
  o.push_back('"');
  for (unsigned char c : s) {
    switch (c) {
    case '"': o += "\\\""; break;
    case '\\': o += "\\\\"; break;
    case '\n': o += "\\n"; break;
    case '\r': o += "\\r"; break;
    case '\t': o += "\\t"; break;
    default:
      if (c < 0x20 || c >= 0x7f) {
        char b[8];
        snprintf(b, sizeof b, "\\u%04x", c);
        o += b;
      } else
        o.push_back((char)c);
    }
  }
  o.push_back('"');
  return o;
}

static std::string tystr(Type *t) {
  std::string s;
  raw_string_ostream os(s);
  t->print(os, false, true);
  return os.str();
}

struct FnCtx {
  std::map<const Value *, int> ids;
  std::map<const BasicBlock *, int> bids;
};

static const DataLayout *DL;

static std::string apstr(const APInt &v) {
  if (v.getBitWidth() <= 64)
    return std::to_string(v.getZExtValue());
  SmallString<40> s;
  v.toStringUnsigned(s);
  return std::string(s.str());
}

static std::string operand(const Value *v, FnCtx *fc);

static std::string constexpr_str(const ConstantExpr *ce, FnCtx *fc) {
  std::string s = "[\"e\"," + jesc(ce->getOpcodeName()) + ",[";
  for (unsigned i = 0; i < ce->getNumOperands(); i++) {
    if (i) s += ",";
    s += operand(ce->getOperand(i), fc);
  }
  s += "]";
  if (auto *gep = dyn_cast<GEPOperator>(ce)) {
    APInt off(DL->getIndexSizeInBits(gep->getPointerAddressSpace()), 0);
    if (gep->accumulateConstantOffset(*DL, off))
      s += "," + std::to_string(off.getSExtValue());
  }
  s += "]";
  return s;
}

static std::string operand(const Value *v, FnCtx *fc) {
  if (fc) {
    auto it = fc->ids.find(v);
    if (it != fc->ids.end())
      return "[\"v\"," + std::to_string(it->second) + "]";
  }
  if (auto *ci = dyn_cast<ConstantInt>(v))
    return "[\"c\"," + apstr(ci->getValue()) + "," + std::to_string(ci->getBitWidth()) + "]";
  if (auto *f = dyn_cast<Function>(v))
    return "[\"f\"," + jesc(f->getName()) + "]";
  if (auto *ga = dyn_cast<GlobalAlias>(v))
    return "[\"g\"," + jesc(ga->getName()) + "]";
  if (auto *g = dyn_cast<GlobalVariable>(v))
    return "[\"g\"," + jesc(g->getName()) + "]";
  if (isa<ConstantPointerNull>(v))
    return "[\"n\"]";
  if (isa<UndefValue>(v))
    return "[\"u\"]";
  if (auto *bb = dyn_cast<BasicBlock>(v)) {
    if (fc) return "[\"b\"," + std::to_string(fc->bids[bb]) + "]";
    return "[\"b\",-1]";
  }
  if (auto *ce = dyn_cast<ConstantExpr>(v))
    return constexpr_str(ce, fc);
  if (isa<MetadataAsValue>(v))
    return "[\"m\"]";
  if (auto *ia = dyn_cast<InlineAsm>(v))
    return "[\"asm\"," + jesc(ia->getAsmString()) + "]";
  if (isa<ConstantAggregateZero>(v))
    return "[\"z\"]";
  std::string s;
  raw_string_ostream os(s);
  v->print(os);
  return "[\"o\"," + jesc(os.str()) + "]";
}

// Flatten a constant initializer into bytes + relocations.
static void flatten(const Constant *c, uint64_t off, std::vector<uint8_t> &bytes,
                    std::vector<std::string> &relocs, bool &ok) {
  Type *t = c->getType();
  uint64_t sz = DL->getTypeAllocSize(t);
  if (off + sz > bytes.size()) { ok = false; return; }
  if (isa<ConstantAggregateZero>(c) || isa<UndefValue>(c) || isa<ConstantPointerNull>(c))
    return;
  if (auto *ci = dyn_cast<ConstantInt>(c)) {
    APInt v = ci->getValue();
    unsigned n = (v.getBitWidth() + 7) / 8;
    for (unsigned i = 0; i < n && i < sz; i++)
      bytes[off + i] = (uint8_t)v.extractBitsAsZExtValue(std::min(8u, v.getBitWidth() - 8 * i), 8 * i);
    return;
  }
  if (auto *cds = dyn_cast<ConstantDataSequential>(c)) {
    StringRef raw = cds->getRawDataValues();
    memcpy(&bytes[off], raw.data(), raw.size());
    return;
  }
  if (auto *ca = dyn_cast<ConstantArray>(c)) {
    uint64_t es = DL->getTypeAllocSize(ca->getType()->getElementType());
    for (unsigned i = 0; i < ca->getNumOperands(); i++)
      flatten(ca->getOperand(i), off + i * es, bytes, relocs, ok);
    return;
  }
  if (auto *cs = dyn_cast<ConstantStruct>(c)) {
    const StructLayout *sl = DL->getStructLayout(cs->getType());
    for (unsigned i = 0; i < cs->getNumOperands(); i++)
      flatten(cs->getOperand(i), off + sl->getElementOffset(i), bytes, relocs, ok);
    return;
  }
  if (t->isPointerTy()) {
    // pointer to global/function, possibly with constant offset / casts
    APInt o(64, 0);
    const Value *base = c->stripAndAccumulateConstantOffsets(*DL, o, true);
    if (auto *gv = dyn_cast<GlobalValue>(base)) {
      relocs.push_back("[" + std::to_string(off) + "," + jesc(gv->getName()) + "," +
                       std::to_string(o.getSExtValue()) + "," +
                       (isa<Function>(gv) ? "\"f\"" : "\"g\"") + "]");
      return;
    }
  }
  ok = false;
}

static std::string linkage(const GlobalValue &g) {
  if (g.hasPrivateLinkage()) return "private";
  if (g.hasInternalLinkage()) return "internal";
  if (g.hasExternalLinkage()) return "external";
  if (g.hasWeakLinkage() || g.hasLinkOnceLinkage()) return "weak";
  if (g.hasCommonLinkage()) return "common";
  return "other";
}

static std::string hex(const std::vector<uint8_t> &b) {
  static const char *d = "0123456789abcdef";
  std::string s;
  s.reserve(b.size() * 2);
  for (uint8_t x : b) { s.push_back(d[x >> 4]); s.push_back(d[x & 15]); }
  return s;
}

int main(int argc, char **argv) {
  if (argc < 2) { errs() << "usage: irfacts file.bc\n"; return 2; }
  LLVMContext ctx;
  SMDiagnostic err;
  std::unique_ptr<Module> M = parseIRFile(argv[1], err, ctx);
  if (!M) { err.print("irfacts", errs()); return 2; }
  DL = &M->getDataLayout();
  raw_ostream &O = outs();
  O << "{\"datalayout\":" << jesc(M->getDataLayoutStr());
  // module asm
  O << ",\n\"module_asm\":" << jesc(M->getModuleInlineAsm());
  // aliases
  O << ",\n\"aliases\":[";
  bool first = true;
  for (auto &a : M->aliases()) {
    if (!first) O << ",";
    first = false;
    const GlobalObject *go = a.getAliaseeObject();
    O << "{\"name\":" << jesc(a.getName()) << ",\"aliasee\":" << jesc(go ? go->getName() : "")
      << ",\"linkage\":" << jesc(linkage(a)) << "}";
  }
  O << "]";
  // struct types
  O << ",\n\"structs\":{";
  first = true;
  for (StructType *st : M->getIdentifiedStructTypes()) {
    if (st->isOpaque()) continue;
    if (!first) O << ",";
    first = false;
    const StructLayout *sl = DL->getStructLayout(st);
    O << jesc(st->getName()) << ":{\"size\":" << sl->getSizeInBytes() << ",\"fields\":[";
    for (unsigned i = 0; i < st->getNumElements(); i++) {
      if (i) O << ",";
      O << "{\"off\":" << sl->getElementOffset(i) << ",\"size\":"
        << DL->getTypeAllocSize(st->getElementType(i)) << ",\"ty\":" << jesc(tystr(st->getElementType(i))) << "}";
    }
    O << "]}";
  }
  O << "}";
  // globals
  O << ",\n\"globals\":[";
  first = true;
  for (auto &g : M->globals()) {
    if (!first) O << ",\n";
    first = false;
    uint64_t sz = g.getValueType()->isSized() ? DL->getTypeAllocSize(g.getValueType()) : 0;
    O << "{\"name\":" << jesc(g.getName()) << ",\"const\":" << (g.isConstant() ? "true" : "false")
      << ",\"linkage\":" << jesc(linkage(g)) << ",\"decl\":" << (g.isDeclaration() ? "true" : "false")
      << ",\"tls\":" << (g.isThreadLocal() ? "true" : "false")
      << ",\"size\":" << sz << ",\"ty\":" << jesc(tystr(g.getValueType()));
    SmallVector<DIGlobalVariableExpression *, 1> dbg;
    g.getDebugInfo(dbg);
    if (!dbg.empty()) {
      auto *v = dbg[0]->getVariable();
      O << ",\"src\":" << jesc(v->getName()) << ",\"file\":" << jesc(v->getFilename())
        << ",\"line\":" << v->getLine();
      if (auto *sp = dyn_cast_or_null<DISubprogram>(v->getScope()))
        O << ",\"scope\":" << jesc(sp->getName());
      else if (auto *lb = dyn_cast_or_null<DILexicalBlockBase>(v->getScope())) {
        if (auto *sp2 = lb->getSubprogram()) O << ",\"scope\":" << jesc(sp2->getName());
      }
    }
    if (g.hasInitializer()) {
      std::vector<uint8_t> bytes(sz, 0);
      std::vector<std::string> relocs;
      bool ok = true;
      flatten(g.getInitializer(), 0, bytes, relocs, ok);
      if (ok) {
        O << ",\"init\":" << jesc(hex(bytes)) << ",\"relocs\":[";
        for (size_t i = 0; i < relocs.size(); i++) { if (i) O << ","; O << relocs[i]; }
        O << "]";
      } else
        O << ",\"init\":null";
      O << ",\"zeroinit\":" << (g.getInitializer()->isNullValue() ? "true" : "false");
    }
    O << "}";
  }
  O << "]";
  // functions
  O << ",\n\"functions\":[";
  first = true;
  for (auto &F : *M) {
    if (!first) O << ",\n";
    first = false;
    O << "{\"name\":" << jesc(F.getName()) << ",\"linkage\":" << jesc(linkage(F))
      << ",\"decl\":" << (F.isDeclaration() ? "true" : "false")
      << ",\"vararg\":" << (F.isVarArg() ? "true" : "false")
      << ",\"fty\":" << jesc(tystr(F.getFunctionType()))
      << ",\"ret\":" << jesc(tystr(F.getReturnType()));
    if (auto *sp = F.getSubprogram())
      O << ",\"file\":" << jesc(sp->getFilename()) << ",\"line\":" << sp->getLine();
    FnCtx fc;
    int nid = 0;
    O << ",\"params\":[";
    for (auto &a : F.args()) {
      if (a.getArgNo()) O << ",";
      fc.ids[&a] = nid;
      O << "{\"id\":" << nid << ",\"name\":" << jesc(a.getName()) << ",\"ty\":" << jesc(tystr(a.getType())) << "}";
      nid++;
    }
    O << "]";
    if (F.isDeclaration()) { O << "}"; continue; }
    int bid = 0;
    for (auto &B : F) {
      fc.bids[&B] = bid++;
      for (auto &I : B) fc.ids[&I] = nid++;
    }
    // dbg names
    std::map<int, std::string> dbgnames;
    O << ",\"blocks\":[";
    bool fb = true;
    for (auto &B : F) {
      if (!fb) O << ",\n";
      fb = false;
      O << "{\"id\":" << fc.bids[&B] << ",\"name\":" << jesc(B.getName()) << ",\"insts\":[";
      bool fi = true;
      for (auto &I : B) {
        if (auto *dvi = dyn_cast<DbgVariableIntrinsic>(&I)) {
          Value *loc = dvi->getVariableLocationOp(0);
          if (loc) {
            auto it = fc.ids.find(loc);
            if (it != fc.ids.end() && !dbgnames.count(it->second))
              dbgnames[it->second] = std::string(dvi->getVariable()->getName());
          }
          continue;
        }
        if (isa<DbgInfoIntrinsic>(&I)) continue;
        if (!fi) O << ",";
        fi = false;
        O << "{\"id\":" << fc.ids[&I] << ",\"op\":" << jesc(I.getOpcodeName())
          << ",\"ty\":" << jesc(tystr(I.getType()));
        if (I.hasName()) O << ",\"name\":" << jesc(I.getName());
        if (const DebugLoc &dl = I.getDebugLoc()) {
          O << ",\"line\":" << dl.getLine();
          if (auto *scope = dyn_cast_or_null<DIScope>(dl.getScope()))
            O << ",\"file\":" << jesc(scope->getFilename());
          if (DILocation *ia = dl.getInlinedAt()) (void)ia;
        }
        // operands
        auto emit_ops = [&](unsigned from, unsigned to) {
          O << ",\"ops\":[";
          for (unsigned i = from; i < to; i++) {
            if (i > from) O << ",";
            O << operand(I.getOperand(i), &fc);
          }
          O << "]";
        };
        if (auto *ai = dyn_cast<AllocaInst>(&I)) {
          uint64_t sz = DL->getTypeAllocSize(ai->getAllocatedType());
          O << ",\"aty\":" << jesc(tystr(ai->getAllocatedType())) << ",\"asize\":" << sz
            << ",\"align\":" << ai->getAlign().value();
          emit_ops(0, I.getNumOperands());
        } else if (auto *li = dyn_cast<LoadInst>(&I)) {
          O << ",\"size\":" << DL->getTypeStoreSize(li->getType())
            << ",\"volatile\":" << (li->isVolatile() ? "true" : "false");
          emit_ops(0, 1);
        } else if (auto *si = dyn_cast<StoreInst>(&I)) {
          O << ",\"size\":" << DL->getTypeStoreSize(si->getValueOperand()->getType())
            << ",\"vty\":" << jesc(tystr(si->getValueOperand()->getType()))
            << ",\"volatile\":" << (si->isVolatile() ? "true" : "false");
          emit_ops(0, 2);
        } else if (auto *gep = dyn_cast<GetElementPtrInst>(&I)) {
          O << ",\"srcty\":" << jesc(tystr(gep->getSourceElementType()))
            << ",\"inbounds\":" << (gep->isInBounds() ? "true" : "false");
          unsigned bw = DL->getIndexSizeInBits(gep->getPointerAddressSpace());
          APInt coff(bw, 0);
          MapVector<Value *, APInt> var;
          if (gep->collectOffset(*DL, bw, var, coff)) {
            O << ",\"cpart\":" << coff.getSExtValue() << ",\"vpart\":[";
            bool fv = true;
            for (auto &kv : var) {
              if (!fv) O << ",";
              fv = false;
              O << "[" << operand(kv.first, &fc) << "," << kv.second.getSExtValue() << "]";
            }
            O << "]";
          }
          // type path: for each index, the indexed type + (constant index | null) + bound
          O << ",\"path\":[";
          {
            // first index steps over the pointer (unbounded), later ones walk the type
            Type *cur = gep->getSourceElementType();
            for (unsigned k = 1; k < gep->getNumOperands(); ++k) {
              if (k > 1) O << ",";
              Value *idx = gep->getOperand(k);
              if (k == 1) {
                O << "[\"a\",-1," << operand(idx, &fc) << "," << DL->getTypeAllocSize(cur) << "]";
                continue;
              }
              if (auto *st = dyn_cast<StructType>(cur)) {
                unsigned fi2 = (unsigned)cast<ConstantInt>(idx)->getZExtValue();
                O << "[\"s\"," << jesc(st->hasName() ? st->getName() : StringRef("")) << "," << fi2 << "]";
                cur = st->getElementType(fi2);
              } else if (auto *at = dyn_cast<ArrayType>(cur)) {
                cur = at->getElementType();
                O << "[\"a\"," << at->getNumElements() << "," << operand(idx, &fc) << ","
                  << DL->getTypeAllocSize(cur) << "]";
              } else if (auto *vt = dyn_cast<FixedVectorType>(cur)) {
                cur = vt->getElementType();
                O << "[\"a\"," << vt->getNumElements() << "," << operand(idx, &fc) << ","
                  << DL->getTypeAllocSize(cur) << "]";
              } else {
                O << "[\"?\"]";
              }
            }
          }
          O << "]";
          emit_ops(0, I.getNumOperands());
        } else if (auto *ic = dyn_cast<ICmpInst>(&I)) {
          O << ",\"pred\":" << jesc(CmpInst::getPredicateName(ic->getPredicate()));
          O << ",\"cbits\":" << (ic->getOperand(0)->getType()->isIntegerTy() ? ic->getOperand(0)->getType()->getIntegerBitWidth() : 64);
          emit_ops(0, 2);
        } else if (auto *cb = dyn_cast<CallBase>(&I)) {
          const Value *cv = cb->getCalledOperand()->stripPointerCasts();
          if (auto *cf = dyn_cast<Function>(cv))
            O << ",\"callee\":" << jesc(cf->getName());
          else if (auto *ga = dyn_cast<GlobalAlias>(cv))
            O << ",\"callee\":" << jesc(ga->getName());
          else if (isa<InlineAsm>(cv))
            O << ",\"callee\":null,\"asm\":" << jesc(cast<InlineAsm>(cv)->getAsmString())
              << ",\"asm_constraints\":" << jesc(cast<InlineAsm>(cv)->getConstraintString());
          else
            O << ",\"callee\":null,\"target\":" << operand(cb->getCalledOperand(), &fc);
          O << ",\"fty\":" << jesc(tystr(cb->getFunctionType()));
          emit_ops(0, cb->arg_size());
        } else if (auto *phi = dyn_cast<PHINode>(&I)) {
          O << ",\"inc\":[";
          for (unsigned i = 0; i < phi->getNumIncomingValues(); i++) {
            if (i) O << ",";
            O << "[" << operand(phi->getIncomingValue(i), &fc) << "," << fc.bids[phi->getIncomingBlock(i)] << "]";
          }
          O << "]";
        } else if (auto *br = dyn_cast<BranchInst>(&I)) {
          O << ",\"succs\":[";
          for (unsigned i = 0; i < br->getNumSuccessors(); i++) {
            if (i) O << ",";
            O << fc.bids[br->getSuccessor(i)];
          }
          O << "]";
          if (br->isConditional()) {
            O << ",\"ops\":[" << operand(br->getCondition(), &fc) << "]";
          } else
            O << ",\"ops\":[]";
        } else if (auto *sw = dyn_cast<SwitchInst>(&I)) {
          O << ",\"default\":" << fc.bids[sw->getDefaultDest()] << ",\"cases\":[";
          bool fcse = true;
          for (auto &c : sw->cases()) {
            if (!fcse) O << ",";
            fcse = false;
            O << "[" << apstr(c.getCaseValue()->getValue()) << "," << fc.bids[c.getCaseSuccessor()] << "]";
          }
          O << "],\"succs\":[";
          for (unsigned i = 0; i < sw->getNumSuccessors(); i++) {
            if (i) O << ",";
            O << fc.bids[sw->getSuccessor(i)];
          }
          O << "],\"ops\":[" << operand(sw->getCondition(), &fc) << "]";
        } else if (auto *ci = dyn_cast<CastInst>(&I)) {
          O << ",\"sty\":" << jesc(tystr(ci->getSrcTy()));
          emit_ops(0, 1);
        } else {
          if (isa<UnreachableInst>(&I)) O << ",\"succs\":[]";
          emit_ops(0, I.getNumOperands());
        }
        if (I.getType()->isIntegerTy()) O << ",\"bits\":" << I.getType()->getIntegerBitWidth();
        O << "}";
      }
      O << "]}";
    }
    O << "],\"dbgnames\":{";
    bool fd = true;
    for (auto &kv : dbgnames) {
      if (!fd) O << ",";
      fd = false;
      O << "\"" << kv.first << "\":" << jesc(kv.second);
    }
    O << "}}";
  }
  O << "]}\n";
  return 0;
}
