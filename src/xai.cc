// xai: path-forking abstract interpreter over LLVM IR (see DESIGN.md 2.3)
// usage: xai prog.bc scenario.json > result.json
#include "xai_models.h"
#include "llvm/IR/IntrinsicInst.h"
#include "llvm/IR/Dominators.h"
#include "llvm/Analysis/LoopInfo.h"
#include "llvm/IR/LLVMContext.h"
#include "llvm/IRReader/IRReader.h"
#include "llvm/Support/MemoryBuffer.h"
#include "llvm/Support/SourceMgr.h"
#include "llvm/Support/raw_ostream.h"
#include <ctime>

Module *M;
const DataLayout *DLp;
Config CFG;
std::map<const GlobalVariable *, int> GlobalRegion;
static int ErrnoRegion = -1;
static int MapFailedRegion = -1;

Val constToVal(State &S, const Constant *C) {
  if (auto *ci = dyn_cast<ConstantInt>(C)) return Val::capint(ci->getValue());
  if (isa<ConstantPointerNull>(C)) return Val::null();
  if (auto *f = dyn_cast<Function>(C)) return Val::func(const_cast<Function *>(f));
  if (auto *ga = dyn_cast<GlobalAlias>(C)) return constToVal(S, ga->getAliasee());
  if (auto *gv = dyn_cast<GlobalVariable>(C)) return Val::ptr(GlobalRegion[gv], 0);
  if (isa<UndefValue>(C)) return C->getType()->isIntegerTy() ? Val::top(C->getType()->getIntegerBitWidth(), P_UNINIT) : Val::unk();
  if (C->getType()->isPointerTy()) {
    APInt off(64, 0);
    const Value *base = C->stripAndAccumulateConstantOffsets(*DLp, off, true);
    if (auto *gv = dyn_cast<GlobalVariable>(base)) return Val::ptr(GlobalRegion[gv], off.getSExtValue());
    if (auto *f = dyn_cast<Function>(base)) return Val::func(const_cast<Function *>(f));
    if (isa<ConstantPointerNull>(base)) return Val::null();
  }
  if (auto *ce = dyn_cast<ConstantExpr>(C)) {
    if (ce->getOpcode() == Instruction::PtrToInt) return constToVal(S, ce->getOperand(0));
    if (ce->getOpcode() == Instruction::IntToPtr)
      if (auto *ci = dyn_cast<ConstantInt>(ce->getOperand(0))) { if (ci->isMinusOne()) return Val::ptr(MapFailedRegion, 0); if (ci->isZero()) return Val::null(); }
  }
  if (C->getType()->isIntegerTy()) return Val::top(C->getType()->getIntegerBitWidth());
  return Val::unk();
}

Val getVal(State &S, const Value *V) {
  if (auto *C = dyn_cast<Constant>(V)) return constToVal(S, C);
  Frame &F = S.stack.back();
  auto it = F.regs.find(V);
  if (it == F.regs.end()) return V->getType()->isIntegerTy() ? Val::top(V->getType()->getIntegerBitWidth(), P_OTHER) : Val::unk();
  Val v = it->second;
  tighten(S, v);
  return v;
}

static void setReg(State &S, const Value *V, const Val &v) { S.stack.back().regs[V] = v; }
static void defReg(State &S, const Value *V, const Val &v) { Frame &F = S.stack.back(); F.regs[V] = v; ++F.ver[V]; }

// two abstract values known to describe the same concrete value: keep the more precise of each component
static Val meetVal(const Val &a, const Val &b) {
  if (a.k != b.k) return a;
  Val r = a;
  if (a.k == Val::INT && a.w == b.w) {
    ConstantRange x = a.r.intersectWith(b.r);
    if (!x.isEmptySet()) { r.r = x; r.kb = rangeKB(x); }
    if (b.hascs) { if (r.hascs) { auto c = r.cs & b.cs; if (c.any()) r.cs = c; } else { r.hascs = true; r.cs = b.cs; } }
    if (r.root < 0 && b.root >= 0) { r.root = b.root; r.rk = b.rk; }
    r.prov |= b.prov;
  } else if (a.k == Val::PTR && a.reg == b.reg) {
    ConstantRange x = a.r.intersectWith(b.r);
    if (!x.isEmptySet()) r.r = x;
    if (r.root < 0 && b.root >= 0) { r.root = b.root; r.rk = b.rk; }
    r.maybenull = a.maybenull && b.maybenull;
  }
  return r;
}

// definition of a pure instruction: intersect with an earlier structurally identical computation on the same operand versions
static void defPure(State &S, const Instruction *I, Val v) {
  Frame &F = S.stack.back();
  const Value *a = I->getNumOperands() > 0 ? I->getOperand(0) : nullptr, *b = I->getNumOperands() > 1 ? I->getOperand(1) : nullptr;
  unsigned opc = I->getOpcode();
  if (auto *ic = dyn_cast<ICmpInst>(I)) opc = 1000 + ic->getPredicate();
  bool ok = I->getNumOperands() <= 2 && (a == nullptr || !isa<Constant>(a) || true);
  unsigned va = a && !isa<Constant>(a) ? F.ver[a] : 0, vb = b && !isa<Constant>(b) ? F.ver[b] : 0;
  unsigned vi = ++F.ver[I];
  if (ok && (isa<BinaryOperator>(I) || isa<CastInst>(I))) {
    if (isa<CastInst>(I)) opc = opc * 131 + I->getType()->getTypeID() * 7 + (I->getType()->isIntegerTy() ? I->getType()->getIntegerBitWidth() : 0);
    auto key = std::make_tuple(opc, a, b);
    auto it = F.cse.find(key);
    if (it != F.cse.end()) {
      const Value *prev; unsigned pa, pb, pi; std::tie(prev, pa, pb, pi) = it->second;
      if (prev != I && pa == va && pb == vb && F.ver[prev] == pi) { auto r = F.regs.find(prev); if (r != F.regs.end()) v = meetVal(v, r->second); }
    }
    F.cse[key] = std::make_tuple((const Value *)I, va, vb, vi);
  }
  F.regs[I] = v;
}

void finishCall(State &S, const CallBase *CB, const Val &ret) {
  if (!CB->getType()->isVoidTy()) { setReg(S, CB, ret); ++S.stack.back().ver[CB]; }
  ++S.stack.back().it;
}

static Val truncTo(State &S, Val v, unsigned w) {
  if (v.k == Val::INT && v.w > w) return castop(S, Instruction::Trunc, v, w, nullptr);
  return v;
}

static i128 umin(const Val &v) { return v.r.isFullSet() || v.r.isWrappedSet() ? 0 : (i128)v.r.getUnsignedMin().getZExtValue(); }
static i128 umax(const Val &v) { return v.r.isFullSet() || v.r.isWrappedSet() ? (i128)APInt::getMaxValue(v.w).getZExtValue() : (i128)v.r.getUnsignedMax().getZExtValue(); }

// ---- contracts --------------------------------------------------------------
static bool applyContract(State &S, const CallBase *CB, const std::vector<Effect> &effs) {
  Val ret = CB->getType()->isIntegerTy() ? Val::top(CB->getType()->getIntegerBitWidth(), P_OTHER) : Val::unk();
  // lengths held in memory (size_t *len arguments) are read before any effect is applied
  std::map<int, i128> oldLen;
  for (auto &e : effs) if (e.lenptr >= 0 && !oldLen.count(e.lenptr)) {
    Val lp = getVal(S, CB->getArgOperand(e.lenptr));
    Val lv = doLoad(S, lp, Type::getInt64Ty(M->getContext()), CB);
    tighten(S, lv);
    oldLen[e.lenptr] = lv.k == Val::INT ? umax(lv) : ((i128)1 << 62);
  }
  for (auto &e : effs) {
    if (e.op == "retptr") {
      Val p = getVal(S, CB->getArgOperand(e.ptr));
      if (p.k != Val::PTR) { ret = Val::unk(); continue; }
      i128 hi = e.rethi;
      if (e.hiarg >= 0) { Val h = getVal(S, CB->getArgOperand(e.hiarg)); tighten(S, h); hi = h.k == Val::INT ? std::min(umax(h), (i128)1 << 40) : ((i128)1 << 40); }
      p.r = p.r.add(ConstantRange::getNonEmpty(APInt(64, (uint64_t)e.retlo, true), APInt(64, (uint64_t)hi, true) + 1));
      if (p.root >= 0 && e.retlo == hi) p.rk += e.retlo; else p.root = -1;
      p.kb = KnownBits(64); p.hascs = false; p.maybenull = e.mayNull;
      ret = p; continue;
    }
    if (e.op == "storeint") {
      Val p = getVal(S, CB->getArgOperand(e.ptr));
      unsigned w = (unsigned)e.size * 8;
      i128 hi = e.lenptr >= 0 ? oldLen[e.lenptr] : (i128)e.rethi;
      i128 cap = w >= 64 ? (((i128)1 << 63) - 1) : (((i128)1 << w) - 1);
      if (hi > cap) hi = cap;
      Val v = Val::range(w, ConstantRange::getNonEmpty(APInt(w, (uint64_t)e.retlo), APInt(w, (uint64_t)hi) + 1), provByName(e.prov));
      doStore(S, p, v, (unsigned)e.size, CB);
      continue;
    }
    if (e.op == "ret") { ret = Val::range(CB->getType()->getIntegerBitWidth(), ConstantRange::getNonEmpty(APInt(CB->getType()->getIntegerBitWidth(), (uint64_t)e.retlo, true), APInt(CB->getType()->getIntegerBitWidth(), (uint64_t)e.rethi, true) + 1)); continue; }
    Val p = getVal(S, CB->getArgOperand(e.ptr));
    if (e.off != 0 && p.k == Val::PTR) { p.r = p.r.add(ConstantRange(APInt(64, (uint64_t)e.off, true))); if (p.root >= 0) p.rk += e.off; p.kb = KnownBits(64); p.hascs = false; }
    i128 nlo, nhi; int lr = -1; i128 lk = 0;
    if (e.len >= 0) { Val n = getVal(S, CB->getArgOperand(e.len)); tighten(S, n); nlo = umin(n); nhi = umax(n); lr = n.root; lk = n.rk; }
    else if (e.lenptr >= 0) { nlo = 0; nhi = oldLen[e.lenptr]; if (e.maxlen >= 0 && nhi > e.maxlen) alarm(S, "CALL", CB, "contract precondition: *len may be " + i128s(nhi) + ", the contract was verified up to " + std::to_string(e.maxlen)); }
    else if (e.size >= 0) nlo = nhi = e.size;
    else {  // size of pointee type
      Type *pt = CB->getArgOperand(e.ptr)->getType()->getPointerElementType();
      nlo = nhi = pt->isSized() ? (i128)DLp->getTypeAllocSize(pt) : 0;
    }
    std::string what = "contract " + std::string(CB->getCalledFunction() ? CB->getCalledFunction()->getName() : "?") + " arg" + std::to_string(e.ptr);
    if (e.op == "read") {
      if (checkAccess(S, p, nlo, nhi, false, CB, what.c_str(), lr, lk)) {
        checkInit(S, p, nlo, nhi, CB, what.c_str());
        if (!CFG.traceRegions.empty() && p.k == Val::PTR && p.reg >= 0 && nhi > 0) {
          i128 olo, ohi; offsetBounds(S, p, olo, ohi);
          markRead(S, p.reg, olo, ohi + nhi);
          // provenance and (for exact spans) a digest of the abstract content that is handed to the primitive
          uint8_t cprov = 0; uint64_t chash = 1469598103934665603ULL; bool exact = olo == ohi && nlo == nhi && nhi <= 4096;
          { const Region &RR = S.regions[p.reg]; i128 upto = std::min(nhi, (i128)4096);
            for (i128 i = 0; i < upto; i++) { ByteCell c = readByte(S, RR, olo + i); cprov |= c.prov; if (exact) for (int w = 0; w < 4; w++) { chash ^= ((const uint64_t *)&c.cs)[w]; chash *= 1099511628211ULL; } } }
          traceEvent("{\"k\":\"cread\",\"prov\":" + std::to_string((int)cprov) + ",\"content\":" + (exact ? "\"" + std::to_string(chash) + "\"" : std::string("null")) + ",\"callee\":\"" + std::string(CB->getCalledFunction() ? CB->getCalledFunction()->getName() : "?") + "\",\"fn\":\"" + std::string(CB->getFunction()->getName()) +
                         "\",\"line\":" + std::to_string(lineOf(CB)) + ",\"reg\":\"" + S.regions[p.reg].name + "\",\"off\":" + rangeJ(olo, ohi) + ",\"len\":" + rangeJ(nlo, nhi) + ",\"root\":" + std::to_string(lr) + ",\"rk\":" + i128s(lk) + "}");
        }
      }
      continue;
    }
    if (nhi == 0) continue;
    if (!checkAccess(S, p, nlo, nhi, true, CB, what.c_str(), lr, lk)) continue;
    Region &R = S.regions[p.reg];
    ensureTracked(S, R);
    RegionData &D = R.w();
    i128 olo, ohi; offsetBounds(S, p, olo, ohi);
    ByteCell any; any.cs.set(); any.prov = provByName(e.prov);
    eraseScalars(D, olo, ohi + nhi);
    D.noteWrite(olo, ohi + std::min(nhi, (i128)1 << 40), false);
    i128 cap = (i128)1 << 40;
    if (olo == ohi) { D.fillRange(olo, olo + std::min(nlo, cap), any); if (nhi > nlo) D.joinRange(olo + nlo, olo + std::min(nhi, cap), any); }
    else D.joinRange(olo, ohi + std::min(nhi, cap), any);
  }
  finishCall(S, CB, ret);
  return true;
}

void backpropPublic(State &S, const Value *V, const Val &nv);
// ---- libc models ---------------------------------------------------------------
bool modelCall(State &S, const CallBase *CB, const std::string &name, std::vector<State> &forks) {
  auto arg = [&](unsigned i) { return getVal(S, CB->getArgOperand(i)); };
  LLVMContext &C = M->getContext();
  if (name == "__errno_location") { finishCall(S, CB, Val::ptr(ErrnoRegion, 0)); return true; }
  if (CFG.abortFns.count(name)) {
    S.aborted = true;
    bool ok; std::string msg = CB->arg_size() ? globalCString(S, arg(0), ok) : "";
    S.abortMsg = name + "(" + msg + ")";
    alarm(S, "ABORT", CB, "process termination reachable: " + S.abortMsg);
    return true;
  }
  if (name.rfind("llvm.memcpy", 0) == 0 || name.rfind("llvm.memmove", 0) == 0 || name == "memcpy" || name == "memmove") {
    doCopy(S, arg(0), arg(1), arg(2), CB, name.find("move") != std::string::npos ? "memmove" : "memcpy");
    finishCall(S, CB, arg(0)); return true;
  }
  if (name.rfind("llvm.memset", 0) == 0 || name == "memset") { doSet(S, arg(0), arg(1), arg(2), CB, "memset"); finishCall(S, CB, arg(0)); return true; }
  if (name == "explicit_bzero") { doSet(S, arg(0), Val::cint(8, 0), arg(1), CB, "explicit_bzero"); finishCall(S, CB, Val::unk()); return true; }
  if (name == "arc4random_buf") {
    Val n = arg(1); tighten(S, n);
    Val p = arg(0);
    if (checkAccess(S, p, umin(n), umax(n), true, CB, "arc4random_buf", n.root, n.rk)) {
      std::vector<ByteCell> cells((size_t)std::min(umax(n), (i128)4096));
      for (auto &c : cells) { c.cs.set(); c.prov = P_RBYTES; }
      S.nW--;
      writeCells(S, p, cells, std::min(umin(n), (i128)cells.size()), (i128)cells.size(), CB, "arc4random_buf");
    }
    addEvent(S, "{\"k\":\"entropy\",\"src\":\"arc4random_buf\",\"lo\":" + i128s(umin(n)) + ",\"hi\":" + i128s(umax(n)) + "}");
    finishCall(S, CB, Val::unk()); return true;
  }
  if (name == "strlen") {
    Val p = arg(0);
    if (p.k != Val::PTR || p.reg < 0 || p.maybenull) { alarm(S, "NULL", CB, "strlen of NULL/untracked pointer"); finishCall(S, CB, Val::top(64)); return true; }
    Region &R = S.regions[p.reg];
    i128 lo, hi; absStrlen(S, p, lo, hi);
    Val r;
    if (hi >= 0) r = Val::range(64, ConstantRange::getNonEmpty(APInt(64, (uint64_t)lo), APInt(64, (uint64_t)hi) + 1), P_OTHER);
    else r = Val::range(64, ConstantRange::getNonEmpty(APInt(64, (uint64_t)lo), APInt(64, 1ULL << 62)), P_OTHER);
    // strings whose length is a root (phrase / setting in crypt scenarios)
    i128 olo, ohi; offsetBounds(S, p, olo, ohi);
    if (R.isString && R.sizeRoot >= 0 && olo == ohi) { r = Val::top(64, P_OTHER); r.root = R.sizeRoot; r.rk = R.sizeK - 1 - olo; tighten(S, r); }
    else if (hi < 0 && !R.isString) alarm(S, "R", CB, "strlen: no terminating NUL inside the tracked part of " + R.name);
    else if (hi >= 0 && lo != hi) {
      // symbolise the unknown length so that `dst + len` and `size - len` stay related
      Root nr; nr.name = "strlen@" + std::to_string(lineOf(CB)); nr.isUnsigned = true; nr.lo = lo; nr.hi = hi; nr.prov = 0;
      auto sr = S.siteRoots.find(CB);
      if (sr != S.siteRoots.end()) { S.roots[sr->second] = nr; r.root = sr->second; }
      else { S.roots.push_back(nr); r.root = (int)S.roots.size() - 1; S.siteRoots[CB] = r.root; }
      r.rk = 0;
    }
    finishCall(S, CB, r); return true;
  }
  if (name == "strnlen") {
    Val p = arg(0), nv = arg(1);
    tighten(S, nv);
    if (p.k != Val::PTR || p.reg < 0 || p.maybenull || nv.k != Val::INT) { alarm(S, "NULL", CB, "strnlen of NULL/untracked pointer"); finishCall(S, CB, Val::top(64)); return true; }
    Region &R = S.regions[p.reg];
    i128 lo, hi; absStrlen(S, p, lo, hi);
    i128 nlo = umin(nv), nhi = umax(nv);
    i128 olo, ohi; offsetBounds(S, p, olo, ohi);
    Val r;
    if (R.isString && R.sizeRoot >= 0 && olo == ohi) {
      // length is a root: the result is that root as long as it cannot exceed the bound, otherwise a plain range
      i128 rlo = S.roots[R.sizeRoot].lo + R.sizeK - 1 - olo, rhi = S.roots[R.sizeRoot].hi + R.sizeK - 1 - olo;
      if (rhi <= nlo) { r = Val::top(64, P_OTHER); r.root = R.sizeRoot; r.rk = R.sizeK - 1 - olo; tighten(S, r); }
      else r = Val::range(64, ConstantRange::getNonEmpty(APInt(64, (uint64_t)std::max((i128)0, std::min(rlo, nlo))), APInt(64, (uint64_t)std::min(rhi, nhi)) + 1), P_OTHER);
    } else {
      i128 h2 = hi < 0 ? nhi : std::min(hi, nhi);
      r = Val::range(64, ConstantRange::getNonEmpty(APInt(64, (uint64_t)std::min(lo, nlo)), APInt(64, (uint64_t)h2) + 1), P_OTHER);
    }
    finishCall(S, CB, r); return true;
  }
  if (name == "strncmp" || name == "memcmp" || name == "strcmp") {
    Val a = arg(0), b = arg(1);
    i128 n = ((i128)1 << 40);
    if (name != "strcmp") { Val nv = arg(2); tighten(S, nv); if (!nv.isConst()) { finishCall(S, CB, Val::top(32, P_OTHER)); return true; } n = umax(nv); }
    if (a.k != Val::PTR || b.k != Val::PTR || a.reg < 0 || b.reg < 0) { alarm(S, "NULL", CB, name + " of NULL/untracked pointer"); finishCall(S, CB, Val::top(32)); return true; }
    i128 alo, ahi, blo, bhi; offsetBounds(S, a, alo, ahi); offsetBounds(S, b, blo, bhi);
    if (name == "memcmp") { checkAccess(S, a, n, n, false, CB, "memcmp"); checkAccess(S, b, n, n, false, CB, "memcmp"); }
    if (alo != ahi || blo != bhi) { finishCall(S, CB, Val::top(32, P_OTHER)); return true; }
    uint8_t prov = 0;
    bool maybeEqualSoFar = false;     // some earlier position could not be decided (but could not end both strings)
    for (i128 i = 0; i < n && i < 4096; i++) {
      ByteCell x = readByte(S, S.regions[a.reg], alo + i), y = readByte(S, S.regions[b.reg], blo + i);
      prov |= x.prov | y.prov;
      if ((x.cs & y.cs).none()) { // definitely different here, and the strings cannot both have ended before
        Val r = Val::top(32, prov); r.r = ConstantRange(APInt(32, 1), APInt(32, 0)); r.kb = KnownBits(32);   // non-zero
        finishCall(S, CB, r); return true;
      }
      if (x.cs.count() == 1 && y.cs.count() == 1) {
        if (x.cs[0] && name != "memcmp") { finishCall(S, CB, maybeEqualSoFar ? Val::top(32, prov) : Val::cint(32, 0)); return true; }
        continue;
      }
      // undecided position: if both strings may end here the comparison may already be over
      if (name != "memcmp" && x.cs[0] && y.cs[0]) { finishCall(S, CB, Val::top(32, prov)); return true; }
      maybeEqualSoFar = true;
    }
    finishCall(S, CB, (n < 4096 && !maybeEqualSoFar) ? Val::cint(32, 0) : Val::top(32, prov)); return true;
  }
  if (name == "snprintf") {
    Val dst = arg(0), size = arg(1);
    tighten(S, size);
    bool ok; std::string fmt = globalCString(S, arg(2), ok);
    std::vector<FmtAlt> alts; std::string why;
    bool expanded = ok && expandFormat(S, CB, fmt, 3, alts, why);
    if (ok && !expanded && why == "WIDE") {
      // snprintf never writes more than `size` bytes, but returns the untruncated (unbounded) length
      Val sz = size; tighten(S, sz);
      i128 shi = umax(sz), slo = umin(sz);
      if (shi > 0) {
        i128 n = std::min(shi, (i128)4096);
        std::vector<ByteCell> cells((size_t)n);
        for (auto &c : cells) { c.cs.set(); c.prov = P_SETTING; }
        writeCells(S, dst, cells, 0, n, CB, "snprintf");
        (void)slo;
      }
      finishCall(S, CB, Val::range(32, ConstantRange::getNonEmpty(APInt(32, 0), APInt(32, 0x7fffffff)), P_SETTING));
      return true;
    }
    if (!ok || !expanded) {
      alarm(S, "MODEL", CB, "snprintf cannot be modelled: " + (ok ? why : std::string("format is not a constant string")));
      finishCall(S, CB, Val::top(32)); return true;
    }
    if ((int64_t)alts.size() > CFG.fmtForkMax) {
      // too many length alternatives: one merged result with per-position unions and a length range
      size_t mn = SIZE_MAX, mx = 0;
      for (auto &a : alts) { mn = std::min(mn, a.bytes.size()); mx = std::max(mx, a.bytes.size()); }
      std::vector<ByteCell> cells(mx + 1);
      for (auto &c : cells) { c.cs.reset(); c.prov = 0; }
      for (auto &a : alts) {
        for (size_t i = 0; i < a.bytes.size(); i++) joinCell(cells[i], a.bytes[i]);
        cells[a.bytes.size()].cs.set(0);
      }
      Val sz = size; tighten(S, sz);
      i128 slo = umin(sz), shi = umax(sz);
      if (shi > 0) {
        i128 nmax = std::min((i128)mx + 1, shi);
        i128 strong = std::min((i128)mn, std::max((i128)0, slo - 1));
        if (slo <= (i128)mx) for (i128 k = std::max((i128)0, slo - 1); k < nmax; k++) cells[(size_t)k].cs.set(0);
        writeCells(S, dst, cells, strong, nmax, CB, "snprintf");
      }
      finishCall(S, CB, Val::range(32, ConstantRange::getNonEmpty(APInt(32, mn), APInt(32, mx) + 1), P_OTHER));
      return true;
    }
    bool firstDone = false;
    State base = S;
    for (size_t ai = 0; ai < alts.size(); ai++) {
      State T = base;
      bool feasible = true;
      for (auto &rf : alts[ai].refine) {
        Root &R = T.roots[std::get<0>(rf)];
        R.lo = std::max(R.lo, std::get<1>(rf)); R.hi = std::min(R.hi, std::get<2>(rf));
        if (R.lo > R.hi) feasible = false;
      }
      if (!feasible) continue;
      for (auto &vr : alts[ai].vrefine) {
        const Value *V = std::get<0>(vr);
        Val cur = getVal(T, V);
        if (cur.k != Val::INT) continue;
        ConstantRange nr = ConstantRange::getNonEmpty(APInt(cur.w, (uint64_t)std::get<1>(vr)), APInt(cur.w, (uint64_t)std::get<2>(vr)) + 1);
        ConstantRange x = cur.r.intersectWith(nr);
        if (x.isEmptySet()) { feasible = false; break; }
        cur.r = x; cur.kb = rangeKB(x); cur.hascs = false;
        if (x.isSingleElement() && x.getSingleElement()->ule(255)) { cur.hascs = true; cur.cs.reset(); cur.cs.set((size_t)x.getSingleElement()->getZExtValue()); }
        T.stack.back().regs[V] = cur;
        backpropPublic(T, V, cur);
      }
      if (!feasible) continue;
      Val sz = size; tighten(T, sz);
      i128 total = (i128)alts[ai].bytes.size();
      i128 slo = umin(sz), shi = umax(sz);
      std::vector<ByteCell> cells = alts[ai].bytes;
      cells.push_back(constCell(0));
      if (shi > 0) {
        if (slo > total) writeCells(T, dst, cells, total + 1, total + 1, CB, "snprintf");
        else if (slo == shi) {
          // the size is known and too small: exactly size-1 characters and the terminator are written, nothing beyond
          cells.resize((size_t)slo);
          cells[(size_t)slo - 1] = constCell(0);
          writeCells(T, dst, cells, slo, slo, CB, "snprintf");
        } else {
          // possible truncation: bytes beyond slo-1 are weak and any position in [slo-1, min(total,shi-1)] may hold the NUL
          i128 nmax = std::min(total + 1, shi);
          for (i128 k = std::max((i128)0, slo - 1); k < nmax; k++) cells[(size_t)k].cs.set(0);
          writeCells(T, dst, cells, std::max((i128)0, slo - 1), nmax, CB, "snprintf");
        }
      }
      finishCall(T, CB, Val::cint(32, (uint64_t)total));
      if (!firstDone) { S = T; firstDone = true; } else forks.push_back(T);
    }
    if (!firstDone) { S.aborted = true; S.abortMsg = "infeasible"; }
    return true;
  }
  if (name == "malloc" || name == "calloc") {
    Val n = arg(0); tighten(S, n);
    State T = S;   // failure alternative
    T.errnoSet = true; T.errnoVal = Val::cint(32, 12);
    addEvent(T, "{\"k\":\"allocfail\",\"fn\":\"" + name + "\",\"line\":" + std::to_string(lineOf(CB)) + "}");
    finishCall(T, CB, Val::null());
    forks.push_back(T);
    int r = newRegion(S, name + "@" + std::to_string(lineOf(CB)), RK_HEAP, umin(n), umax(n));
    if (n.root >= 0) { S.regions[r].sizeRoot = n.root; S.regions[r].sizeK = n.rk; }
    finishCall(S, CB, Val::ptr(r, 0)); return true;
  }
  if (name == "free") {
    Val p = arg(0);
    if (p.k == Val::PTR && p.reg >= 0) {
      Region &R = S.regions[p.reg];
      if (R.kind != RK_HEAP) alarm(S, "FREE", CB, "free of non-heap region " + R.name);
      else if (!R.live) alarm(S, "FREE", CB, "double free of " + R.name);
      R.live = false;
    }
    finishCall(S, CB, Val::unk()); return true;
  }

  // ---- string scanning models -------------------------------------------------
  if (name == "strcspn" || name == "strspn") {
    Val sp = arg(0); bool ok; std::string set = globalCString(S, arg(1), ok);
    if (!ok || sp.k != Val::PTR || sp.reg < 0) { alarm(S, "MODEL", CB, name + ": set is not a constant string or string untracked"); finishCall(S, CB, Val::top(64)); return true; }
    std::bitset<256> stop; stop.set(0);
    if (name == "strcspn") for (unsigned char c : set) stop.set(c);
    else { stop.set(); for (unsigned char c : set) stop.reset(c); }
    const Region &R = S.regions[sp.reg];
    i128 olo, ohi; offsetBounds(S, sp, olo, ohi);
    if (olo != ohi) { finishCall(S, CB, Val::range(64, ConstantRange::getNonEmpty(APInt(64, 0), APInt(64, 1ULL << 62)), P_OTHER)); return true; }
    i128 lim = R.gv ? (i128)R.sizeHi : R.rd().scanLimit();
    i128 lo = -1, hi = -1; uint8_t prov = 0;
    for (i128 i = olo; i < lim; i++) {
      ByteCell c = readByte(S, R, i); prov |= c.prov;
      bool may = (c.cs & stop).any(), must = (c.cs & ~stop).none();
      if (may && lo < 0) lo = i - olo;
      if (must) { hi = i - olo; break; }
    }
    if (lo < 0) lo = lim - olo;
    Val r;
    if (hi >= 0) r = Val::range(64, ConstantRange::getNonEmpty(APInt(64, (uint64_t)lo), APInt(64, (uint64_t)hi) + 1), prov);
    else {
      r = Val::range(64, ConstantRange::getNonEmpty(APInt(64, (uint64_t)lo), APInt(64, 1ULL << 62)), prov);
      // bounded by the string length when that is a root
      if (R.isString && R.sizeRoot >= 0) { i128 mx = S.roots[R.sizeRoot].hi + R.sizeK - 1 - olo; if (mx >= lo && mx < ((i128)1 << 62)) r = Val::range(64, ConstantRange::getNonEmpty(APInt(64, (uint64_t)lo), APInt(64, (uint64_t)mx) + 1), prov); }
    }
    finishCall(S, CB, r); return true;
  }
  if (name == "strchr" || name == "strrchr") {
    Val sp = arg(0), cv = arg(1);
    if (sp.k != Val::PTR || sp.reg < 0 || !cv.isConst()) { alarm(S, "MODEL", CB, name + ": untracked string or non-constant character"); finishCall(S, CB, Val::unk()); return true; }
    unsigned ch = (unsigned)(cv.constVal().getZExtValue() & 0xff);
    const Region &R = S.regions[sp.reg];
    i128 olo, ohi; offsetBounds(S, sp, olo, ohi);
    i128 lim = R.gv ? (i128)R.sizeHi : R.rd().scanLimit();
    if (olo != ohi) { Val r = sp; r.r = ConstantRange::getNonEmpty(APInt(64, (uint64_t)olo, true), APInt(64, (uint64_t)lim)); r.root = -1; r.maybenull = true; finishCall(S, CB, r); return true; }
    // positions where ch may be found before the (definite) end
    i128 first = -1, last = -1, end = -1; bool mustFind = false;
    for (i128 i = olo; i < lim; i++) {
      ByteCell c = readByte(S, R, i);
      if (c.cs[ch]) { if (first < 0) first = i; last = i; if (c.cs.count() == 1 && name == "strchr") { mustFind = true; end = i; break; } if (c.cs.count() == 1) mustFind = true; }
      if (ch != 0 && c.cs[0] && c.cs.count() == 1) { end = i; break; }
      if (ch != 0 && c.cs[0] && name == "strchr" && first < 0) { /* may end before any match */ }
    }
    bool unboundedTail = end < 0;
    if (first < 0 && !unboundedTail) { finishCall(S, CB, Val::null()); return true; }
    i128 hiPos = unboundedTail ? ((R.isString && R.sizeRoot >= 0) ? std::max(first < 0 ? olo : first, S.roots[R.sizeRoot].hi + R.sizeK - 1) : lim) : (name == "strchr" && mustFind ? end : last);
    i128 loPos = first < 0 ? lim : first;
    if (name == "strrchr") {
      // the last occurrence is not before the last position that definitely holds the character
      i128 stop = unboundedTail ? lim : end;
      for (i128 i = olo; i < stop; i++) { ByteCell c = readByte(S, R, i); if (c.cs[ch] && c.cs.count() == 1) loPos = std::max(loPos, i); }
    }
    if (hiPos < loPos) hiPos = loPos;
    Val found = Val::ptr(sp.reg, 0);
    found.r = ConstantRange::getNonEmpty(APInt(64, (uint64_t)loPos), APInt(64, (uint64_t)hiPos) + 1);
    found.prov = sp.prov;
    bool definitelyFound = mustFind && (name == "strchr" ? true : true) && !( /* a NUL may precede */ false);
    // decide whether NULL is possible: a definite occurrence before any possible NUL
    bool nullPossible = true;
    if (mustFind) {
      nullPossible = false;
      for (i128 i = olo; i < lim; i++) { ByteCell c = readByte(S, R, i); if (c.cs[ch] && c.cs.count() == 1) break; if (c.cs[0] && ch != 0) { nullPossible = true; break; } }
    }
    (void)definitelyFound;
    if (nullPossible) { State T = S; finishCall(T, CB, Val::null()); forks.push_back(T); }
    finishCall(S, CB, found); return true;
  }
  if (name == "strtoul") {
    Val sp = arg(0), ep = arg(1);
    if (sp.k != Val::PTR || sp.reg < 0) { alarm(S, "MODEL", CB, "strtoul: untracked string"); finishCall(S, CB, Val::top(64)); return true; }
    const Region &R = S.regions[sp.reg];
    i128 olo, ohi; offsetBounds(S, sp, olo, ohi);
    i128 lim = R.gv ? (i128)R.sizeHi : R.rd().scanLimit();
    std::bitset<256> dig; for (int c = '0'; c <= '9'; c++) dig.set(c);
    std::bitset<256> lead; for (unsigned char c : std::string(" \t\n\v\f\r+-")) lead.set(c);
    Val res = Val::top(64, P_SETTING);
    i128 dlo = 0, dhi = 0;
    if (olo == ohi) {
      bool exact = true; unsigned __int128 val = 0; bool ovf = false; bool messy = false;
      i128 i = olo;
      ByteCell c0 = readByte(S, R, i);
      if (c0.cs.count() == 1 && c0.cs['+']) i = olo + 1;        // an explicit plus sign: the digits follow
      else if ((c0.cs & lead).any()) messy = true;
      bool stoppedLo = false;
      for (; i < lim; i++) {
        ByteCell c = readByte(S, R, i);
        bool may = (c.cs & dig).any(), must = (c.cs & ~dig).none();
        if (!may) break;
        if (!must && !stoppedLo) { dlo = i - olo; stoppedLo = true; }
        if (c.cs.count() == 1 && exact) { int d = 0; for (int k = '0'; k <= '9'; k++) if (c.cs[k]) d = k - '0'; val = val * 10 + d; if (val > (unsigned __int128)UINT64_MAX) ovf = true; }
        else exact = false;
        if (i - olo > 40) break;
      }
      dhi = i - olo; if (!stoppedLo) dlo = dhi;
      if (i >= lim && lim - olo <= 40 && !R.gv) { dhi = std::min((i128)40, (R.isString && R.sizeRoot >= 0) ? S.roots[R.sizeRoot].hi + R.sizeK - 1 - olo : (i128)40); if (dhi < dlo) dhi = dlo; }
      if (messy) { res = Val::top(64, P_SETTING); dlo = 0; dhi = std::max(dhi, (i128)1) + 1; }
      else if (exact && dlo == dhi) { res = Val::capint(APInt(64, ovf ? UINT64_MAX : (uint64_t)val)); res.prov = P_SETTING; if (ovf) { S.errnoSet = true; S.errnoVal = Val::cint(32, 34); } }
      else if (dlo == dhi && dhi <= 19 && dhi > 0) {
        // every position is a digit (sets): bounds from the smallest / largest digit of each position
        unsigned __int128 mn = 0, mx = 0;
        for (i128 k = 0; k < dhi; k++) { ByteCell c = readByte(S, R, olo + k); int lo_d = 9, hi_d = 0; for (int d = 0; d <= 9; d++) if (c.cs['0' + d]) { lo_d = std::min(lo_d, d); hi_d = std::max(hi_d, d); } mn = mn * 10 + lo_d; mx = mx * 10 + hi_d; }
        res = Val::range(64, ConstantRange::getNonEmpty(APInt(64, (uint64_t)mn), APInt(64, (uint64_t)mx) + 1), P_SETTING);
      }
      else if (dhi <= 19) { unsigned __int128 mx = 1; for (i128 k = 0; k < dhi; k++) mx *= 10; res = Val::range(64, ConstantRange::getNonEmpty(APInt(64, 0), APInt(64, (uint64_t)(mx - 1)) + 1), P_SETTING); }
    } else { dlo = 0; dhi = 40; }
    markRead(S, sp.reg, olo, ohi + dhi);
    if (ep.k == Val::PTR && ep.reg >= 0) {
      Val e = sp; e.root = -1; e.kb = KnownBits(64);
      e.r = ConstantRange::getNonEmpty(APInt(64, (uint64_t)(olo + dlo), true), APInt(64, (uint64_t)(ohi + dhi), true) + 1);
      doStore(S, ep, e, 8, CB);
    }
    finishCall(S, CB, res); return true;
  }
  if (name == "realloc") {
    Val p = arg(0), n = arg(1); tighten(S, n);
    { State T = S; T.errnoSet = true; T.errnoVal = Val::cint(32, 12);
      addEvent(T, "{\"k\":\"allocfail\",\"fn\":\"realloc\",\"line\":" + std::to_string(lineOf(CB)) + "}");
      finishCall(T, CB, Val::null()); forks.push_back(T); }
    if (p.k == Val::PTR && p.reg >= 0) { Region &O = S.regions[p.reg]; if (O.kind != RK_HEAP) alarm(S, "FREE", CB, "realloc of non-heap region " + O.name); else if (!O.live) alarm(S, "UAF", CB, "realloc of freed block"); O.live = false; O.d.reset(); }
    int r = newRegion(S, "realloc@" + std::to_string(lineOf(CB)), RK_HEAP, umin(n), umax(n));
    if (n.root >= 0) { S.regions[r].sizeRoot = n.root; S.regions[r].sizeK = n.rk; }
    finishCall(S, CB, Val::ptr(r, 0)); return true;
  }
  if (name == "mmap") {
    Val n = arg(1); tighten(S, n);
    { State T = S; T.errnoSet = true; T.errnoVal = Val::cint(32, 12);
      addEvent(T, "{\"k\":\"allocfail\",\"fn\":\"mmap\",\"line\":" + std::to_string(lineOf(CB)) + "}");
      finishCall(T, CB, Val::ptr(MapFailedRegion, 0)); forks.push_back(T); }
    int r = newRegion(S, "mmap@" + std::to_string(lineOf(CB)), RK_HEAP, umin(n), umax(n));
    S.regions[r].w().rest = constCell(0);
    addEvent(S, "{\"k\":\"map\",\"region\":" + std::to_string(r) + "}");
    finishCall(S, CB, Val::ptr(r, 0)); return true;
  }
  if (name == "munmap") {
    Val p = arg(0);
    { State T = S; T.errnoSet = true; T.errnoVal = Val::cint(32, 22);
      addEvent(T, "{\"k\":\"allocfail\",\"fn\":\"munmap\",\"line\":" + std::to_string(lineOf(CB)) + "}");
      finishCall(T, CB, Val::capint(APInt(32, (uint64_t)-1, true))); forks.push_back(T); }
    if (p.k == Val::PTR && p.reg >= 0) { Region &O = S.regions[p.reg]; if (!O.live) alarm(S, "FREE", CB, "munmap of a dead mapping"); O.live = false; O.d.reset(); addEvent(S, "{\"k\":\"unmap\",\"region\":" + std::to_string(p.reg) + "}"); }
    finishCall(S, CB, Val::cint(32, 0)); return true;
  }
  auto it = CFG.contracts.find(name);
  if (it != CFG.contracts.end()) return applyContract(S, CB, it->second);
  return false;
}

// ---- interpreter -----------------------------------------------------------------
static bool valEq(const Val &a, const Val &b) {
  if (a.k != b.k) return false;
  if (a.k == Val::FN) return a.fn == b.fn;
  if (a.k == Val::UNK) return true;
  if (a.k == Val::PTR && (a.reg != b.reg || a.maybenull != b.maybenull)) return false;
  if (a.k == Val::INT && (a.w != b.w || a.hascs != b.hascs || (a.hascs && a.cs != b.cs))) return false;
  return a.r == b.r && a.root == b.root && a.rk == b.rk && a.prov == b.prov;
}

static uint64_t regionHash(const RegionData &D) {
  if (D.hvalid) return D.hcache;
  uint64_t h = 1469598103934665603ULL;
  auto mix = [&](uint64_t x) { h ^= x; h *= 1099511628211ULL; };
  for (auto &c : D.bytes) { mix(c.prov); for (int w = 0; w < 4; w++) mix(((const uint64_t *)&c.cs)[w]); }
  for (auto &kv : D.sparse) { mix((uint64_t)kv.first); mix(kv.second.prov); for (int w = 0; w < 4; w++) mix(((const uint64_t *)&kv.second.cs)[w]); }
  mix(D.rest.prov); for (int w = 0; w < 4; w++) mix(((const uint64_t *)&D.rest.cs)[w]);
  for (auto &kv : D.scalars) {
    mix((uint64_t)kv.first); mix(kv.second.first); const Val &v = kv.second.second; mix(v.k); mix((uint64_t)v.reg); mix((uint64_t)v.root);
    if (!v.r.isFullSet() && !v.r.isEmptySet()) { mix(v.r.getLower().getLimitedValue()); mix(v.r.getUpper().getLimitedValue()); }
  }
  for (auto &w : D.written) { mix((uint64_t)w.first); mix((uint64_t)w.second); }
  for (auto &t : D.writtenLinked) { mix((uint64_t)std::get<0>(t)); mix((uint64_t)std::get<1>(t)); mix((uint64_t)std::get<2>(t)); }
  for (auto &w : D.nuls) { mix((uint64_t)w.first); mix((uint64_t)w.second); }
  D.hcache = h; D.hvalid = true;
  return h;
}

static uint64_t memHash(const State &S) {
  uint64_t h = 1469598103934665603ULL;
  auto mix = [&](uint64_t x) { h ^= x; h *= 1099511628211ULL; };
  for (auto &R : S.regions) {
    if (R.gv && R.gv->isConstant()) continue;
    mix(R.live);
    if (!R.d) continue;
    mix(regionHash(*R.d));
  }
  for (auto &r : S.roots) { mix((uint64_t)r.lo); mix((uint64_t)r.hi); }
  mix(S.errnoSet); if (S.errnoSet && S.errnoVal.k == Val::INT && S.errnoVal.r.isSingleElement()) mix(S.errnoVal.r.getSingleElement()->getLimitedValue());
  for (auto &a : S.alarms) { mix(a.line); for (char c : a.kind) mix((uint64_t)c); for (char c : a.fn) mix((uint64_t)c); for (char c : a.msg) mix((uint64_t)c); }
  return h;
}

static Val widenVal(const Val &o, const Val &n) {
  if (valEq(o, n)) return n;
  if (o.k != n.k) return n.k == Val::INT ? Val::top(n.w, o.prov | n.prov) : Val::unk();
  if (n.k == Val::INT) {
    if (o.w != n.w) return Val::top(n.w, o.prov | n.prov);
    Val v = Val::top(n.w, o.prov | n.prov);
    if (!o.r.isFullSet() && !n.r.isFullSet() && !o.r.isEmptySet() && !n.r.isEmptySet() && !o.r.isWrappedSet() && !n.r.isWrappedSet()) {
      APInt lo = APIntOps::umin(o.r.getUnsignedMin(), n.r.getUnsignedMin());
      APInt ohi = o.r.getUnsignedMax(), nhi = n.r.getUnsignedMax();
      // growing upper bound -> max; shrinking lower bound -> 0
      APInt hi = nhi.ugt(ohi) ? APInt::getMaxValue(n.w) : ohi;
      if (n.r.getUnsignedMin().ult(o.r.getUnsignedMin())) lo = APInt(n.w, 0);
      v.r = ConstantRange::getNonEmpty(lo, hi + 1);
      v.kb = rangeKB(v.r);
    }
    // byte sets survive widening only when the value cannot leave [0,255] anyway (e.g. a zero-extended byte)
    if (o.hascs && n.hascs && !v.r.isFullSet() && !v.r.isWrappedSet() && v.r.getUnsignedMax().ule(255)) { v.hascs = true; v.cs = o.cs | n.cs; for (unsigned b = 0; b < 256; b++) if (v.r.contains(APInt(v.w, b))) v.cs.set(b); }
    return v;
  }
  if (n.k == Val::PTR) {
    if (o.reg != n.reg) return Val::unk();
    Val v = n; v.root = -1; v.kb = KnownBits(64); v.maybenull = o.maybenull || n.maybenull; v.prov = o.prov | n.prov;
    if (o.r.isFullSet() || n.r.isFullSet()) { v.r = ConstantRange::getFull(64); return v; }
    APInt lo = APIntOps::smin(o.r.getSignedMin(), n.r.getSignedMin());
    APInt hi = n.r.getSignedMax().sgt(o.r.getSignedMax()) ? APInt::getSignedMaxValue(63).zext(64) : o.r.getSignedMax();
    if (n.r.getSignedMin().slt(o.r.getSignedMin())) lo = APInt::getSignedMinValue(63).sext(64);
    v.r = ConstantRange::getNonEmpty(lo, hi + 1);
    return v;
  }
  return n;
}

// ---- liveness (SSA values live on entry to each block), computed lazily per function
static std::map<const Function *, std::map<const BasicBlock *, std::set<const Value *>>> LiveIn;
static const std::set<const Value *> &liveIn(const BasicBlock *B) {
  const Function *F = B->getParent();
  auto it = LiveIn.find(F);
  if (it == LiveIn.end()) {
    auto &L = LiveIn[F];
    bool changed = true;
    auto isTracked = [](const Value *v) { return isa<Instruction>(v) || isa<Argument>(v); };
    while (changed) {
      changed = false;
      for (auto bi = F->getBasicBlockList().rbegin(); bi != F->getBasicBlockList().rend(); ++bi) {
        const BasicBlock &BB = *bi;
        std::set<const Value *> live;
        for (const BasicBlock *Su : successors(&BB)) {
          for (const Value *v : L[Su]) if (!(isa<PHINode>(v) && cast<Instruction>(v)->getParent() == Su)) live.insert(v);
          for (auto &I : *Su) { auto *phi = dyn_cast<PHINode>(&I); if (!phi) break; const Value *in = phi->getIncomingValueForBlock(&BB); if (isTracked(in)) live.insert(in); }
        }
        for (auto ii = BB.rbegin(); ii != BB.rend(); ++ii) {
          const Instruction &I = *ii;
          live.erase(&I);
          if (isa<PHINode>(&I)) { live.insert(&I); continue; }   // phis are defined at block entry: count them as live-in
          for (const Use &U : I.operands()) if (isTracked(U.get())) live.insert(U.get());
        }
        if (live != L[&BB]) { L[&BB] = live; changed = true; }
      }
    }
    it = LiveIn.find(F);
  }
  return it->second[B];
}

static uint64_t valHash(const Val &v) {
  uint64_t h = 0x9e3779b97f4a7c15ULL * (v.k + 1);
  auto mix = [&](uint64_t x) { h ^= x + 0x9e3779b97f4a7c15ULL + (h << 6) + (h >> 2); };
  mix(v.w); mix((uint64_t)v.reg); mix(v.maybenull); mix((uint64_t)v.root); mix((uint64_t)v.rk); mix(v.prov); mix((uint64_t)(uintptr_t)v.fn);
  if (v.k == Val::INT || v.k == Val::PTR) { if (v.r.isFullSet()) mix(1); else if (v.r.isEmptySet()) mix(2); else { mix(v.r.getLower().getLimitedValue()); mix(v.r.getUpper().getLimitedValue()); } }
  if (v.hascs) for (int w = 0; w < 4; w++) mix(((const uint64_t *)&v.cs)[w]);
  return h;
}

static std::set<std::pair<const BasicBlock *, uint64_t>> SeenStates;   // per cell (cleared in main)

static uint64_t stateHash(const State &S, const BasicBlock *at) {
  uint64_t h = memHash(S);
  auto mix = [&](uint64_t x) { h ^= x; h *= 1099511628211ULL; };
  for (size_t fi = 0; fi < S.stack.size(); fi++) {
    const Frame &F = S.stack[fi];
    mix((uint64_t)(uintptr_t)F.callsite);
    uint64_t acc = 0;
    if (fi + 1 == S.stack.size()) {
      for (const Value *v : liveIn(at)) { auto it = F.regs.find(v); if (it != F.regs.end()) acc += valHash(it->second) * ((uint64_t)(uintptr_t)v | 1); }
    } else {
      // caller frames: values live into the block of the pending call plus values defined in it
      const BasicBlock *cb = F.bb;
      for (const Value *v : liveIn(cb)) { auto it = F.regs.find(v); if (it != F.regs.end()) acc += valHash(it->second) * ((uint64_t)(uintptr_t)v | 1); }
      for (auto &I : *cb) { auto it = F.regs.find(&I); if (it != F.regs.end()) acc += valHash(it->second) * ((uint64_t)(uintptr_t)&I | 1); }
    }
    mix(acc);
  }
  mix(S.nW > 0); mix(S.wroteReport);
  for (auto &e : S.events) for (char c : e) mix((uint64_t)c);
  return h;
}

// returns false if the state is subsumed by an earlier arrival at the same header (path can stop)
static bool enterBlockW(State &S, BasicBlock *to);
static void enterBlock(State &S, BasicBlock *to) {
  Frame &F = S.stack.back();
  BasicBlock *from = F.bb;
  // phis evaluate simultaneously
  std::vector<std::pair<const Value *, Val>> vals;
  for (auto &I : *to) {
    auto *phi = dyn_cast<PHINode>(&I);
    if (!phi) break;
    vals.emplace_back(phi, getVal(S, phi->getIncomingValueForBlock(from)));
  }
  for (auto &kv : vals) { F.regs[kv.first] = kv.second; ++F.ver[kv.first]; }
  F.prev = from; F.bb = to; F.it = to->getFirstNonPHI()->getIterator();
  F.visits[to]++;
}

// loop structure per function: header -> exiting blocks of the natural loop
static std::map<const Function *, std::map<const BasicBlock *, std::vector<const BasicBlock *>>> LoopExits;
static std::map<const BasicBlock *, std::set<const BasicBlock *>> LoopBlocks;     // header -> blocks of the loop
static const std::vector<const BasicBlock *> *loopExiting(const BasicBlock *hdr) {
  const Function *F = hdr->getParent();
  auto it = LoopExits.find(F);
  if (it == LoopExits.end()) {
    auto &M2 = LoopExits[F];
    DominatorTree DT(*const_cast<Function *>(F));
    LoopInfo LI(DT);
    SmallVector<Loop *, 16> work(LI.begin(), LI.end());
    while (!work.empty()) {
      Loop *L = work.pop_back_val();
      for (Loop *Sub : L->getSubLoops()) work.push_back(Sub);
      SmallVector<BasicBlock *, 8> ex; L->getExitingBlocks(ex);
      auto &v = M2[L->getHeader()];
      for (auto *b : ex) v.push_back(b);
      auto &lb = LoopBlocks[L->getHeader()];
      for (auto *b : L->blocks()) lb.insert(b);
    }
    it = LoopExits.find(F);
  }
  auto jt = it->second.find(hdr);
  return jt == it->second.end() ? nullptr : &jt->second;
}

static bool seenBefore(State &S, BasicBlock *to);
static bool enterBlockW(State &S, BasicBlock *to) {
  Frame &F0 = S.stack.back();
  BasicBlock *from = F0.bb;
  // entering a loop from outside: its iteration bookkeeping starts afresh
  loopExiting(to);
  { auto lb = LoopBlocks.find(to);
    if (lb != LoopBlocks.end() && !lb->second.count(from)) {
      for (auto *b : lb->second) { F0.visits.erase(b); F0.forks.erase(b); F0.snaps.erase(b); }
      F0.loopEntry[to] = S.steps;
      F0.loopEntryForks[to] = S.nforks;
    } }
  bool hot = F0.forks[to] > CFG.widenAfter || F0.forks[from] > CFG.widenAfter;
  if (getenv("XAI_TRACE_VIS") && F0.visits[to] % 500 == 499) errs() << "[vis] " << to->getParent()->getName() << ":" << to->getName() << " visits=" << F0.visits[to] << " isheader=" << LoopBlocks.count(to) << " longLoop=" << CFG.longLoop << "\n";
  if (!hot && F0.visits[to] > 0) {
    if (auto *ex = loopExiting(to)) for (auto *b : *ex) if (F0.forks[b] > CFG.widenAfter) { hot = true; break; }
  }
  if (!hot && F0.visits[to] > 4 && LoopBlocks.count(to) && S.steps - F0.loopEntry[to] > CFG.longLoopSteps) hot = true;   // expensive loop body: summarise early
  if (!hot && F0.visits[to] > CFG.forkyLoop && LoopBlocks.count(to) && (S.nforks - F0.loopEntryForks[to]) * 2 > F0.visits[to]) hot = true;   // body forks on data every iteration
  if (!hot && F0.visits[to] > CFG.longLoop) hot = true;      // very long (even if decided) loops are summarised by widening
  if (!hot && CFG.frameForkWiden > 0 && F0.visits[to] > 0) {
    // a loop header in a frame that has already forked many times on data (not on the loop test):
    // widen so that the per-iteration states converge instead of multiplying
    int tot = 0; for (auto &kv : F0.forks) tot += kv.second;
    if (tot > CFG.frameForkWiden) hot = true;
  }
  // the snapshot/widening logic is only meaningful at loop headers (their phis carry the loop state);
  // other blocks are handled by the full-state de-duplication
  if (hot && !LoopBlocks.count(to)) hot = false;
  if (hot && getenv("XAI_TRACE_HOT")) errs() << "[hot] " << to->getParent()->getName() << ":" << to->getName() << " from " << from->getName() << " forks[to]=" << F0.forks[to] << " forks[from]=" << F0.forks[from] << " visits=" << F0.visits[to] << "\n";
  enterBlock(S, to);
  if (!hot) {
    if (CFG.dedupe && S.fresh > 0 && to->hasNPredecessorsOrMore(2) && S.alarms.size() < 16) { S.fresh--; if (seenBefore(S, to)) { S.dedup = true; return false; } }
    return true;
  }
  Frame &F = S.stack.back();
  std::vector<const Value *> phis;
  for (auto &I : *to) { if (!isa<PHINode>(&I)) break; phis.push_back(&I); }
  uint64_t mh = memHash(S);
  auto it = F.snaps.find(to);
  std::vector<Val> cur;
  for (auto *p : phis) cur.push_back(F.regs[p]);
  if (it == F.snaps.end()) { F.snaps[to] = {cur, mh}; return true; }
  auto &old = it->second;
  bool same = old.second == mh && old.first.size() == cur.size();
  std::vector<Val> wid;
  bool ptrHot = F.visits[to] > CFG.ptrWidenAfter;
  for (size_t i = 0; i < cur.size(); i++) {
    // pointer phis (buffer walks with a decided bound) are widened only after many iterations
    // pointers and concretely counted integers keep their exact values until the loop has run for a while
    bool exactCounter = cur[i].k == Val::PTR || (cur[i].k == Val::INT && cur[i].isConst() && i < old.first.size() && old.first[i].k == Val::INT && old.first[i].isConst());
    Val w = (i < old.first.size() && (!exactCounter || ptrHot)) ? widenVal(old.first[i], cur[i]) : cur[i];
    if (i >= old.first.size() || !valEq(w, old.first[i])) same = false;
    wid.push_back(w);
  }
  if (same) { if (getenv("XAI_TRACE_PRUNE")) errs() << "[prune] fixpoint at " << to->getParent()->getName() << ":" << to->getName() << " pathsteps=" << S.steps << "\n"; return false; }
  for (size_t i = 0; i < phis.size(); i++) F.regs[phis[i]] = wid[i];
  F.snaps[to] = {wid, mh};
  if (CFG.dedupe && S.alarms.size() < 16 && seenBefore(S, to)) { S.dedup = true; return false; }
  return true;
}

// cross-path deduplication at loop headers / merge blocks: an identical abstract state (live values of
// all frames, memory, roots, errno, events) already continued from this block on another path
static bool seenBefore(State &S, BasicBlock *to) {
  uint64_t h = stateHash(S, to);
  if (getenv("XAI_TRACE_DEDUP")) {
    errs() << "[dedup] " << to->getParent()->getName() << ":" << to->getName() << " h=" << h << " mem=" << memHash(S) << " nregions=" << S.regions.size() << " regs:";
    const Frame &F = S.stack.back();
    for (const Value *v : liveIn(to)) { auto it = F.regs.find(v); if (it != F.regs.end()) errs() << " " << v->getName() << "=" << valHash(it->second) % 100000; }
    errs() << "\n";
  }
  bool seen = !SeenStates.insert({to, h}).second;
  if (seen && getenv("XAI_TRACE_PRUNE")) errs() << "[prune] dedupe at " << to->getParent()->getName() << ":" << to->getName() << " pathsteps=" << S.steps << "\n";
  return seen;
}

// back-propagate a refined value of V to the values it was computed from
static void refineLoadedCell(State &S, const Value *V, const Val &nv);
static bool isPureFn(const Function *F) {
  static std::map<const Function *, bool> memo;
  auto it = memo.find(F);
  if (it != memo.end()) return it->second;
  bool pure = !F->isDeclaration();
  for (auto &B : *F) for (auto &I : B) {
    if (isa<StoreInst>(I) || isa<AtomicRMWInst>(I) || isa<AtomicCmpXchgInst>(I)) pure = false;
    if (auto *cb = dyn_cast<CallBase>(&I)) { const Function *c = cb->getCalledFunction(); if (!c || !c->getName().startswith("llvm.dbg.")) pure = false; }
  }
  return memo[F] = pure;
}

static void backprop(State &S, const Value *V, const Val &nv, int depth = 0) {
  auto *I = dyn_cast<Instruction>(V);
  if (!I || depth > 6 || nv.k != Val::INT) return;
  if (isa<LoadInst>(I)) { refineLoadedCell(S, I, nv); return; }
  Frame &F = S.stack.back();
  if (auto *ci = dyn_cast<CastInst>(I)) {
    const Value *src = ci->getOperand(0);
    if (!src->getType()->isIntegerTy() || isa<Constant>(src)) return;
    Val sv = getVal(S, src);
    if (sv.k != Val::INT) return;
    unsigned sw = sv.w;
    ConstantRange r = ConstantRange::getFull(sw);
    if (isa<ZExtInst>(ci)) { if (nv.r.getUnsignedMax().getActiveBits() <= sw && !nv.r.isFullSet()) r = nv.r.truncate(sw); }
    else if (isa<SExtInst>(ci)) { if (!nv.r.isFullSet() && nv.r.getSignedMin().getMinSignedBits() <= sw && nv.r.getSignedMax().getMinSignedBits() <= sw) r = nv.r.truncate(sw); }
    else return;
    ConstantRange x = sv.r.intersectWith(r);
    if (x.isEmptySet()) return;
    sv.r = x; sv.kb = rangeKB(x);
    if (nv.hascs && sw >= 8 ) { if (sv.hascs) sv.cs &= nv.cs; else if (isa<ZExtInst>(ci)) { sv.hascs = true; sv.cs = nv.cs; } }
    if (sv.hascs) { for (int i = 0; i < 256; i++) if (sv.cs[i] && !sv.r.contains(APInt(sw, i))) sv.cs.reset(i); }
    F.regs[src] = sv;
    backprop(S, src, sv, depth + 1);
    return;
  }
  if (auto *bo = dyn_cast<BinaryOperator>(I)) {
    if ((bo->getOpcode() == Instruction::Add || bo->getOpcode() == Instruction::Sub) && isa<ConstantInt>(bo->getOperand(1)) && !isa<Constant>(bo->getOperand(0))) {
      Val sv = getVal(S, bo->getOperand(0));
      if (sv.k != Val::INT || nv.r.isFullSet()) return;
      ConstantRange c(cast<ConstantInt>(bo->getOperand(1))->getValue());
      ConstantRange r = bo->getOpcode() == Instruction::Add ? nv.r.sub(c) : nv.r.add(c);
      ConstantRange x = sv.r.intersectWith(r);
      if (x.isEmptySet()) return;
      sv.r = x; sv.kb = rangeKB(x);
      if (nv.hascs && !x.isWrappedSet() && x.getUnsignedMax().ule(255)) {
        // shift the byte set through the constant
        int64_t cv = cast<ConstantInt>(bo->getOperand(1))->getSExtValue();
        if (bo->getOpcode() == Instruction::Add) cv = -cv;      // source = result - c  (Add) / result + c (Sub)
        std::bitset<256> sh;
        for (int b = 0; b < 256; b++) if (nv.cs[b]) { int64_t s2 = (int64_t)b + cv; if (s2 >= 0 && s2 <= 255 && x.contains(APInt(sv.w, (uint64_t)s2))) sh.set((size_t)s2); }
        if (sv.hascs) sh &= sv.cs;
        if (sh.any()) { sv.hascs = true; sv.cs = sh; }
      }
      F.regs[bo->getOperand(0)] = sv;
      backprop(S, bo->getOperand(0), sv, depth + 1);
    }
  }
}

void backpropPublic(State &S, const Value *V, const Val &nv) { backprop(S, V, nv); }
// refine the loaded memory cell when a branch tested a value loaded from a tracked byte
static void refineLoadedCell(State &S, const Value *V, const Val &nv) {
  const Value *X = V;
  while (auto *ci = dyn_cast<CastInst>(X)) X = ci->getOperand(0);
  auto *li = dyn_cast<LoadInst>(X);
  if (!li || nv.k != Val::INT) return;
  if (!li->getType()->isIntegerTy(8)) return;
  Val p = getVal(S, li->getPointerOperand());
  if (p.k != Val::PTR || p.reg < 0) return;
  Region &R = S.regions[p.reg];
  if (R.gv && R.gv->isConstant()) return;
  i128 lo, hi; offsetBounds(S, p, lo, hi);
  if (lo != hi || lo < 0) return;
  if (!R.readonly) {
    // only sound if the cell has not been overwritten since the load: the load is in the same block right before (clang -O0 pattern)
    if (li->getParent() != S.stack.back().bb) return;
    for (auto it = li->getIterator(); &*it != &*S.stack.back().it; ++it) if (it->mayWriteToMemory() && &*it != li) return;
  }
  // value set of the (possibly widened) register, projected to the byte
  Val cur = getVal(S, li);
  std::bitset<256> allow; 
  if (cur.k != Val::INT) return;
  if (cur.hascs) allow = cur.cs; else { for (int i = 0; i < 256; i++) if (cur.r.contains(APInt(8, i))) allow.set(i); }
  RegionData &D = R.w();
  bool tracked = lo < (i128)D.bytes.size() || D.sparse.count((int64_t)lo);
  if (!tracked) return;
  ByteCell c = D.get(lo); c.cs &= allow;
  if (c.cs.any()) D.setStrong(lo, c);
}

// a refined value that is a known function of a byte (tabulated pure call / constant table load) refines that byte
static void refineByteFn(State &S, const Val &a) {
  if (a.tbl < 0 || !a.tsrc || a.k != Val::INT || a.tdepth != S.stack.size() || isa<Constant>(a.tsrc)) return;
  Frame &F = S.stack.back();
  auto vi = F.ver.find(a.tsrc);
  if ((vi == F.ver.end() ? 0u : vi->second) != a.tver) return;
  const ByteFn &f = byteFns()[(size_t)a.tbl];
  Val sv = getVal(S, a.tsrc);
  if (sv.k != Val::INT) return;
  std::bitset<256> cand;
  if (sv.hascs) cand = sv.cs;
  else if (sv.w == 8) { for (unsigned b = 0; b < 256; b++) if (sv.r.contains(APInt(8, b))) cand.set(b); }
  else if (!sv.r.isFullSet() && !sv.r.isEmptySet() && !sv.r.isWrappedSet() && sv.r.getUnsignedMax().ule(255)) { for (unsigned b = 0; b < 256; b++) if (sv.r.contains(APInt(sv.w, b))) cand.set(b); }
  else return;
  std::bitset<256> keep;
  for (unsigned b = 0; b < 256; b++) if (cand[b] && f.dom[b] && a.r.contains(APInt(a.w, (uint64_t)f.val[b], true))) keep.set(b);
  if (keep.none() || keep == cand) return;
  sv.hascs = true; sv.cs = keep;
  { uint8_t pv = sv.prov; int root = sv.root; i128 rk = sv.rk; Val nv = Val::charset(sv.w, keep, pv); nv.tbl = sv.tbl; nv.tsrc = sv.tsrc; nv.tver = sv.tver; nv.tdepth = sv.tdepth; (void)root; (void)rk; sv = nv; }
  setReg(S, a.tsrc, sv);
  backprop(S, a.tsrc, sv);
  refineLoadedCell(S, a.tsrc, sv);
}

static bool assumeCond(State &S, const Value *cond, bool truth) {
  if (auto *ic = dyn_cast<ICmpInst>(cond)) {
    CmpInst::Predicate p = truth ? ic->getPredicate() : ic->getInversePredicate();
    Val a = getVal(S, ic->getOperand(0)), b = getVal(S, ic->getOperand(1));
    if (a.k == Val::PTR || b.k == Val::PTR) {
      // null-ness refinement
      auto isNullC = [](const Val &v) { return v.k == Val::PTR && v.reg < 0 && !v.maybenull; };
      if (a.k == Val::PTR && isNullC(b) && CmpInst::isEquality(p) && !isa<Constant>(ic->getOperand(0))) {
        if (p == CmpInst::ICMP_EQ) { if (!a.maybenull && a.reg >= 0) return false; a = Val::null(); } else { if (a.reg < 0) return false; a.maybenull = false; }
        setReg(S, ic->getOperand(0), a);
        return true;
      }
      if (a.k == Val::PTR && b.k == Val::PTR && a.reg == b.reg && a.reg >= 0) {
        // compare offsets (signed)
        CmpInst::Predicate sp = CmpInst::isUnsigned(p) ? CmpInst::getSignedPredicate(p) : p;
        Val ia = Val::range(64, a.r), ib = Val::range(64, b.r);
        ia.root = a.root; ia.rk = a.rk; ib.root = b.root; ib.rk = b.rk;
        Val ia0 = ia, ib0 = ib;
        if (!refineOne(S, sp, ia, ib0)) return false;
        if (!refineOne(S, CmpInst::getSwappedPredicate(sp), ib, ia0)) return false;
        a.r = ia.r; b.r = ib.r;
        if (!isa<Constant>(ic->getOperand(0))) setReg(S, ic->getOperand(0), a);
        if (!isa<Constant>(ic->getOperand(1))) setReg(S, ic->getOperand(1), b);
      }
      return true;
    }
    Val a0 = a, b0 = b;
    if (!refineOne(S, p, a, b0)) return false;
    if (!refineOne(S, CmpInst::getSwappedPredicate(p), b, a0)) return false;
    if (!isa<Constant>(ic->getOperand(0))) { setReg(S, ic->getOperand(0), a); backprop(S, ic->getOperand(0), a); refineLoadedCell(S, ic->getOperand(0), a); refineByteFn(S, a); }
    if (!isa<Constant>(ic->getOperand(1))) { setReg(S, ic->getOperand(1), b); backprop(S, ic->getOperand(1), b); refineLoadedCell(S, ic->getOperand(1), b); refineByteFn(S, b); }
    return true;
  }
  if (auto *bo = dyn_cast<BinaryOperator>(cond)) {
    if (bo->getOpcode() == Instruction::Xor && isa<ConstantInt>(bo->getOperand(1)) && cast<ConstantInt>(bo->getOperand(1))->isOne())
      return assumeCond(S, bo->getOperand(0), !truth);
  }
  if (auto *tr = dyn_cast<TruncInst>(cond)) {
    // bool stored as i8: trunc (x) to i1
    Val x = getVal(S, tr->getOperand(0));
    if (x.k == Val::INT && x.hascs) {
      for (int i = 0; i < 256; i++) if (x.cs[i] && ((i & 1) != (truth ? 1 : 0))) x.cs.reset(i);
      if (x.cs.none()) return false;
      Val t = x; t.fromcs(); x.r = t.r; x.kb = t.kb;
      if (!isa<Constant>(tr->getOperand(0))) setReg(S, tr->getOperand(0), x);
    }
    return true;
  }
  if (!isa<Constant>(cond)) setReg(S, cond, Val::cint(1, truth));
  return true;
}

// (x != c) with c strictly inside the interval of x's root: split the state so that boxes stay exact
static bool splitHole(State &S, const Value *cond, bool truth, State &extra) {
  auto *ic = dyn_cast<ICmpInst>(cond);
  if (!ic || !ic->isEquality()) return false;
  bool ne = (ic->getPredicate() == CmpInst::ICMP_NE) == truth;
  if (!ne) return false;
  Val a = getVal(S, ic->getOperand(0)), b = getVal(S, ic->getOperand(1));
  if (a.k != Val::INT || b.k != Val::INT) return false;
  if (a.root < 0 && b.root >= 0) std::swap(a, b);
  if (a.root < 0 || !b.isConst()) return false;
  Root &R = S.roots[a.root];
  i128 c = ap2i(b.constVal(), !R.isUnsigned) - a.rk;
  if (c <= R.lo || c >= R.hi) return false;
  extra = S;
  extra.roots[a.root].lo = c + 1;
  R.hi = c - 1;
  return true;
}

// a load from a constant global array indexed by a value with a known byte set: result == table[index]
static void linkTableLoad(State &S, const LoadInst *li, Val &lv) {
  auto *gep = dyn_cast<GetElementPtrInst>(li->getPointerOperand());
  if (!gep) return;
  auto *gv = dyn_cast<GlobalVariable>(gep->getPointerOperand()->stripPointerCasts());
  if (!gv || !gv->isConstant() || !gv->hasInitializer()) return;
  auto *cda = dyn_cast<ConstantDataSequential>(gv->getInitializer());
  if (!cda || !cda->getElementType()->isIntegerTy() || cda->getElementType() != li->getType()) return;
  const Value *idx = nullptr;
  unsigned n = gep->getNumIndices(), k = 0;
  for (auto it = gep->idx_begin(); it != gep->idx_end(); ++it, ++k) {
    if (auto *c = dyn_cast<ConstantInt>(it->get())) { if (!c->isZero()) return; continue; }
    if (k + 1 != n || idx) return;
    idx = it->get();
  }
  if (!idx || gep->getSourceElementType() != gv->getValueType()) return;
  Val iv = getVal(S, idx);
  if (iv.k != Val::INT) return;
  tighten(S, iv);
  if (!iv.hascs) {
    if (iv.r.isFullSet() || iv.r.isEmptySet() || iv.r.isWrappedSet() || iv.r.getUnsignedMax().ugt(255)) return;
    iv.cs.reset(); for (unsigned b = 0; b < 256; b++) if (iv.r.contains(APInt(iv.w, b))) iv.cs.set(b);
  }
  ByteFn f; f.val.fill(0);
  for (unsigned b = 0; b < 256; b++) if (iv.cs[b]) {
    if (b >= cda->getNumElements()) return;
    f.dom.set(b); f.val[b] = (int64_t)cda->getElementAsInteger(b);
  }
  Frame &F = S.stack.back();
  auto vi = F.ver.find(idx);
  lv.tbl = internByteFn(f); lv.tsrc = idx; lv.tver = vi == F.ver.end() ? 0 : vi->second; lv.tdepth = (unsigned)S.stack.size();
}

static bool tabulableFn(const Function *F) {
  static std::map<const Function *, bool> memo;
  auto it = memo.find(F);
  if (it != memo.end()) return it->second;
  bool ok = isPureFn(F) && F->arg_size() == 1 && F->getArg(0)->getType()->isIntegerTy(8) && F->getReturnType()->isIntegerTy() && F->getReturnType()->getIntegerBitWidth() <= 64;
  if (ok) for (auto &B : *F) for (auto &I : B) if (auto *l = dyn_cast<LoadInst>(&I)) {
    const Value *p = l->getPointerOperand()->stripPointerCasts();
    while (auto *g = dyn_cast<GetElementPtrInst>(p)) p = g->getPointerOperand()->stripPointerCasts();
    while (auto *ce = dyn_cast<ConstantExpr>(p)) { if (ce->getOpcode() != Instruction::GetElementPtr && ce->getOpcode() != Instruction::BitCast) break; p = ce->getOperand(0); }
    auto *gv = dyn_cast<GlobalVariable>(p);
    if (!gv || !gv->isConstant()) ok = false;
  }
  return memo[F] = ok;
}

static uint64_t GlobalSteps = 0;
time_t CellDeadline = 0;      // wall-clock budget of the current cell (set in main)
struct Engine {
  std::vector<State> work;
  std::vector<State> done;
  int64_t paths = 0;
  bool budgetHit = false;

  void concretise(State &S, int root) {
    // split S on every value of the root; S keeps the lowest
    Root R = S.roots[root];
    for (i128 v = R.lo + 1; v <= R.hi; v++) { State T = S; T.roots[root].lo = T.roots[root].hi = v; work.push_back(T); }
    S.roots[root].hi = R.lo;
  }

  // a store-free function of one byte that reads only constant tables: evaluated for every byte the argument can be
  // (each evaluation is the ordinary interpretation with a constant argument, cached), the result is linked to the argument
  bool tabulatedCall(State &S, const CallBase *cb, Function *callee) {
    static std::map<std::pair<const Function *, unsigned>, std::pair<bool, int64_t>> cache;
    Val av = getVal(S, cb->getArgOperand(0));
    if (av.k != Val::INT || av.w != 8) return false;
    std::bitset<256> cand;
    if (av.hascs) cand = av.cs; else for (unsigned b = 0; b < 256; b++) if (av.r.contains(APInt(8, b))) cand.set(b);
    if (cand.none()) return false;
    unsigned rw = callee->getReturnType()->getIntegerBitWidth();
    ByteFn f; f.val.fill(0);
    int64_t mn = INT64_MAX, mx = INT64_MIN; bool small = true; std::bitset<256> rcs;
    for (unsigned b = 0; b < 256; b++) if (cand[b]) {
      auto key = std::make_pair((const Function *)callee, b);
      auto it = cache.find(key);
      if (it == cache.end()) {
        State T = S;
        T.stack.clear(); T.alarms.clear(); T.events.clear(); T.steps = 0; T.nforks = 0; T.fresh = 0;
        Frame NF; NF.F = callee; NF.callsite = nullptr; NF.regs[callee->getArg(0)] = Val::capint(APInt(8, b));
        NF.bb = &callee->getEntryBlock(); NF.it = NF.bb->begin();
        T.stack.push_back(std::move(NF));
        Engine sub; sub.run(std::move(T));
        bool ok = sub.work.empty() && sub.done.size() == 1 && !sub.done[0].aborted && !sub.done[0].dedup && sub.done[0].alarms.empty();
        int64_t rv = 0;
        if (ok) { Val r = sub.done[0].stack.back().regs.lookup(nullptr); ok = r.k == Val::INT && r.isConst(); if (ok) rv = rw >= 64 ? (int64_t)r.constVal().getZExtValue() : r.constVal().getSExtValue(); }
        it = cache.emplace(key, std::make_pair(ok, rv)).first;
      }
      if (!it->second.first) return false;
      f.dom.set(b); f.val[b] = it->second.second;
      mn = std::min(mn, it->second.second); mx = std::max(mx, it->second.second);
      if (it->second.second < 0 || it->second.second > 255) small = false; else rcs.set((size_t)it->second.second);
    }
    Val rv;
    if (mn == mx) rv = Val::capint(APInt(rw, (uint64_t)mn, true));
    else rv = Val::range(rw, ConstantRange::getNonEmpty(APInt(rw, (uint64_t)mn, true), APInt(rw, (uint64_t)mx, true) + 1));
    if (small && mn != mx) { rv.hascs = true; rv.cs = rcs; }
    rv.prov = av.prov;
    if (!isa<Constant>(cb->getArgOperand(0))) {
      Frame &F = S.stack.back();
      auto vi = F.ver.find(cb->getArgOperand(0));
      rv.tbl = internByteFn(f); rv.tsrc = cb->getArgOperand(0); rv.tver = vi == F.ver.end() ? 0 : vi->second; rv.tdepth = (unsigned)S.stack.size();
    }
    finishCall(S, cb, rv);
    return true;
  }

  // run one state to completion (or until it forks; forks are pushed to work)
  void run(State S) {
    while (true) {
      if (S.aborted) { done.push_back(std::move(S)); return; }
      if (getenv("XAI_TRACE") && (++GlobalSteps % 200000) == 0) {
        Instruction *TI = &*S.stack.back().it;
        errs() << "[trace] steps=" << GlobalSteps << " work=" << work.size() << " done=" << paths << " depth=" << S.stack.size() << " at " << TI->getFunction()->getName() << ":" << lineOf(TI) << " pathsteps=" << S.steps << " seen=" << SeenStates.size() << "\n";
      }
      if (++S.steps > CFG.maxSteps || ((S.steps & 0xfffff) == 0 && CellDeadline && time(nullptr) > CellDeadline)) { alarm(S, "BUDGET", nullptr, S.steps > CFG.maxSteps ? "step budget exceeded" : "wall-clock budget of the cell exceeded"); S.aborted = true; S.abortMsg = "budget"; done.push_back(std::move(S)); return; }
      Frame &F = S.stack.back();
      Instruction *I = &*F.it;
      if (isa<DbgInfoIntrinsic>(I)) { ++F.it; continue; }
      if (auto *ai = dyn_cast<AllocaInst>(I)) {
        uint64_t sz = DLp->getTypeAllocSize(ai->getAllocatedType());
        if (auto *cn = dyn_cast<ConstantInt>(ai->getArraySize())) sz *= cn->getZExtValue();
        int r = newRegion(S, std::string(F.F->getName()) + ":" + std::string(ai->getName()), RK_STACK, sz, sz);
        S.regions[r].frame = (int)S.stack.size();
        if (CFG.trackInit) S.regions[r].w().trackInit = true;
        S.stack.back().allocas.push_back(r);
        defReg(S, I, Val::ptr(r, 0)); ++S.stack.back().it; continue;
      }
      if (auto *li = dyn_cast<LoadInst>(I)) {
        Val p = getVal(S, li->getPointerOperand());
        Val lv = doLoad(S, p, li->getType(), I);
        if (lv.k == Val::INT && lv.w <= 32) linkTableLoad(S, li, lv);
        defReg(S, I, lv); ++S.stack.back().it; continue;
      }
      if (auto *si = dyn_cast<StoreInst>(I)) {
        Val p = getVal(S, si->getPointerOperand()), v = getVal(S, si->getValueOperand());
        doStore(S, p, v, (unsigned)DLp->getTypeStoreSize(si->getValueOperand()->getType()), I);
        ++S.stack.back().it; continue;
      }
      if (auto *gep = dyn_cast<GetElementPtrInst>(I)) {
        Val p = getVal(S, gep->getPointerOperand());
        if (p.k != Val::PTR) { defReg(S, I, Val::unk()); ++S.stack.back().it; continue; }
        Type *cur = gep->getSourceElementType();
        bool first = true;
        for (unsigned k = 1; k < gep->getNumOperands(); k++) {
          Val idx = getVal(S, gep->getOperand(k));
          if (first) { first = false; uint64_t es = DLp->getTypeAllocSize(cur); p = addOffset(S, p, idx, es); continue; }
          if (auto *st = dyn_cast<StructType>(cur)) {
            unsigned fi = (unsigned)cast<ConstantInt>(gep->getOperand(k))->getZExtValue();
            p = addOffset(S, p, Val::cint(64, DLp->getStructLayout(st)->getElementOffset(fi)), 1);
            cur = st->getElementType(fi);
          } else if (auto *at = dyn_cast<ArrayType>(cur)) {
            cur = at->getElementType();
            // IDX obligation: index within the declared array (one-past allowed for address computation)
            if (idx.k == Val::INT) {
              tighten(S, idx);
              if (getenv("XAI_TRACE_IDX")) errs() << "[idx] " << I->getFunction()->getName() << ":" << lineOf(I) << " idx=" << rangeStr(idx) << " n=" << at->getNumElements() << "\n";
              bool bad = idx.r.isFullSet() || idx.r.getSignedMin().isNegative() || idx.r.getSignedMax().ugt(at->getNumElements());
              if (bad && at->getNumElements() > 0) alarm(S, "IDX", I, "index " + rangeStr(idx) + " may leave the declared array of " + std::to_string(at->getNumElements()) + " elements");
              else S.nIdx++;
            }
            p = addOffset(S, p, idx, DLp->getTypeAllocSize(cur));
          } else if (auto *vt = dyn_cast<FixedVectorType>(cur)) { cur = vt->getElementType(); p = addOffset(S, p, idx, DLp->getTypeAllocSize(cur)); }
        }
        defReg(S, I, p); ++S.stack.back().it; continue;
      }
      if (auto *bo = dyn_cast<BinaryOperator>(I)) {
        int need;
        Val r = binop(S, bo->getOpcode(), getVal(S, bo->getOperand(0)), getVal(S, bo->getOperand(1)), need);
        if (need >= 0) { concretise(S, need); continue; }
        defPure(S, I, r); ++S.stack.back().it; continue;
      }
      if (auto *ci = dyn_cast<CastInst>(I)) {
        unsigned dw = ci->getType()->isIntegerTy() ? ci->getType()->getIntegerBitWidth() : 64;
        Val cs0 = getVal(S, ci->getOperand(0));
        Val cr = castop(S, ci->getOpcode(), cs0, dw, ci->getType());
        if (cs0.k == Val::INT && cs0.tbl >= 0 && cr.k == Val::INT && cr.tbl < 0 && (isa<ZExtInst>(ci) || isa<SExtInst>(ci) || isa<TruncInst>(ci))) {
          ByteFn g = byteFns()[(size_t)cs0.tbl];
          for (unsigned b = 0; b < 256; b++) if (g.dom[b]) {
            APInt x(cs0.w, (uint64_t)g.val[b], true);
            APInt y = isa<ZExtInst>(ci) ? x.zext(dw) : isa<SExtInst>(ci) ? x.sext(dw) : x.trunc(dw);
            g.val[b] = dw >= 64 ? (int64_t)y.getZExtValue() : y.getSExtValue();
          }
          cr.tbl = internByteFn(g); cr.tsrc = cs0.tsrc; cr.tver = cs0.tver; cr.tdepth = cs0.tdepth;
        }
        defPure(S, I, cr); ++S.stack.back().it; continue;
      }
      if (auto *ic = dyn_cast<ICmpInst>(I)) {
        int t = icmpEval(S, ic->getPredicate(), getVal(S, ic->getOperand(0)), getVal(S, ic->getOperand(1)));
        Val r = t < 0 ? Val::top(1) : Val::cint(1, (uint64_t)t);
        Val a = getVal(S, ic->getOperand(0)), b = getVal(S, ic->getOperand(1));
        if (a.k == Val::INT) r.prov |= a.prov; if (b.k == Val::INT) r.prov |= b.prov;
        if ((a.k == Val::INT && a.ambient) || (b.k == Val::INT && b.ambient))
          alarm(S, "AMBIENT", I, "errno is tested before this call has stored to it: the outcome depends on the errno value the caller happens to have");
        defReg(S, I, r); ++S.stack.back().it; continue;
      }
      if (auto *sel = dyn_cast<SelectInst>(I)) {
        Val c = getVal(S, sel->getCondition());
        if (c.k == Val::INT && c.isConst()) { defReg(S, I, getVal(S, c.constVal().isZero() ? sel->getFalseValue() : sel->getTrueValue())); ++S.stack.back().it; continue; }
        // fork on the condition
        State T = S;
        bool f1 = assumeCond(S, sel->getCondition(), true), f0 = assumeCond(T, sel->getCondition(), false);
        if (f0) { defReg(T, I, getVal(T, sel->getFalseValue())); ++T.stack.back().it; if (f1) work.push_back(std::move(T)); }
        if (f1) { defReg(S, I, getVal(S, sel->getTrueValue())); ++S.stack.back().it; }
        else if (f0) { S = std::move(T); }
        else { S.aborted = true; S.abortMsg = "infeasible"; }
        continue;
      }
      if (auto *br = dyn_cast<BranchInst>(I)) {
        if (br->isUnconditional()) { if (!loopOk(S, br->getSuccessor(0), I)) continue; if (!enterBlockW(S, br->getSuccessor(0))) { S.aborted = true; S.abortMsg = "infeasible"; } continue; }
        Val c = getVal(S, br->getCondition());
        int t = (c.k == Val::INT && c.isConst()) ? (c.constVal().isZero() ? 0 : 1) : -1;
        if (t < 0) {
          S.stack.back().forks[I->getParent()]++;
          S.fresh = 4096;
          S.nforks++;
          State T = S;
          { State X; if (splitHole(S, br->getCondition(), true, X)) { work.push_back(std::move(X)); }
            State Y; if (splitHole(T, br->getCondition(), false, Y)) { work.push_back(std::move(Y)); } }
          bool f1 = assumeCond(S, br->getCondition(), true), f0 = assumeCond(T, br->getCondition(), false);
          if (f0 && f1) { bool keep = true; if (loopOk(T, br->getSuccessor(1), I)) { keep = enterBlockW(T, br->getSuccessor(1)); } if (keep) work.push_back(std::move(T)); t = 1; }
          else if (f1) t = 1; else if (f0) { S = std::move(T); t = 0; }
          else { S.aborted = true; S.abortMsg = "infeasible"; continue; }
        }
        BasicBlock *to = br->getSuccessor(t ? 0 : 1);
        if (!loopOk(S, to, I)) continue;
        if (!enterBlockW(S, to)) { S.aborted = true; S.abortMsg = "infeasible"; }
        continue;
      }
      if (auto *sw = dyn_cast<SwitchInst>(I)) {
        Val c = getVal(S, sw->getCondition());
        if (c.k == Val::INT && c.isConst()) { enterBlock(S, sw->findCaseValue(ConstantInt::get(M->getContext(), c.constVal()))->getCaseSuccessor()); continue; }
        // fork over cases that are possible
        bool took = false; State base = S;
        Val dflt = c;
        for (auto &cs : sw->cases()) {
          APInt cv = cs.getCaseValue()->getValue();
          if (c.k == Val::INT && !c.r.contains(cv)) continue;
          if (c.k == Val::INT && c.hascs && (cv.ugt(255) || !c.cs[(size_t)cv.getZExtValue()])) continue;
          State T = base; Val x = Val::capint(cv); x.prov = c.prov; x.root = -1;
          if (!isa<Constant>(sw->getCondition())) { setReg(T, sw->getCondition(), x); backprop(T, sw->getCondition(), x); }
          if (c.root >= 0) { i128 v = ap2i(cv, !T.roots[c.root].isUnsigned) - c.rk; if (v < T.roots[c.root].lo || v > T.roots[c.root].hi) continue; T.roots[c.root].lo = T.roots[c.root].hi = v; }
          enterBlock(T, cs.getCaseSuccessor()); work.push_back(std::move(T));
          if (dflt.hascs && cv.ule(255)) dflt.cs.reset((size_t)cv.getZExtValue());
        }
        if (dflt.hascs && dflt.cs.none()) { S.aborted = true; S.abortMsg = "infeasible"; continue; }
        if (dflt.hascs) { Val t2 = dflt; t2.fromcs(); dflt.r = t2.r; dflt.kb = t2.kb; if (!isa<Constant>(sw->getCondition())) setReg(S, sw->getCondition(), dflt); }
        (void)took;
        enterBlock(S, sw->getDefaultDest()); continue;
      }
      if (auto *ri = dyn_cast<ReturnInst>(I)) {
        Val rv = ri->getReturnValue() ? getVal(S, ri->getReturnValue()) : Val::unk();
        Frame old = std::move(S.stack.back());
        for (int r : old.allocas) S.regions[r].live = false, S.regions[r].d.reset();
        S.stack.pop_back();
        if (S.stack.empty()) { S.stack.push_back(Frame()); S.stack.back().regs[nullptr] = rv; S.aborted = false; done.push_back(std::move(S)); return; }
        if (!CFG.wsetResetAfter.empty() && old.F->getName() == CFG.wsetResetAfter)
          for (auto &R : S.regions) if (R.name == CFG.reportRegion && R.d) { R.w().wset.reset(); }
        finishCall(S, old.callsite, rv);
        continue;
      }
      if (isa<UnreachableInst>(I)) { if (!S.aborted) { S.aborted = true; S.abortMsg = "unreachable"; alarm(S, "ABORT", I, "unreachable executed"); } continue; }
      if (auto *cb = dyn_cast<CallBase>(I)) {
        S.nCall++;
        Function *callee = cb->getCalledFunction();
        if (!callee) {
          Val t = getVal(S, cb->getCalledOperand());
          if (t.k == Val::FN) callee = t.fn;
          else if (isa<InlineAsm>(cb->getCalledOperand())) { finishCall(S, cb, cb->getType()->isIntegerTy() ? Val::top(cb->getType()->getIntegerBitWidth(), P_OTHER) : Val::unk()); continue; }
          else { alarm(S, "CALL", I, "indirect call through an unknown target"); finishCall(S, cb, Val::unk()); continue; }
        }
        std::string name(callee->getName());
        if (callee->isIntrinsic() && (name.rfind("llvm.dbg", 0) == 0 || name.rfind("llvm.lifetime", 0) == 0 || name.rfind("llvm.prefetch", 0) == 0)) { ++S.stack.back().it; continue; }
        std::string plain = name.rfind("_crypt_", 0) == 0 ? name.substr(7) : name;
        bool contracted = CFG.contracts.count(name) || CFG.contracts.count(plain);
        if (callee->isDeclaration() || contracted || CFG.abortFns.count(name)) {
          std::vector<State> forks;
          std::string key = CFG.contracts.count(name) ? name : (CFG.contracts.count(plain) ? plain : name);
          if (!modelCall(S, cb, key, forks)) {
            if (callee->isIntrinsic()) { finishCall(S, cb, cb->getType()->isIntegerTy() ? Val::top(cb->getType()->getIntegerBitWidth(), P_OTHER) : Val::unk()); }
            else { alarm(S, "MODEL", I, "no model for external function " + name); finishCall(S, cb, cb->getType()->isIntegerTy() ? Val::top(cb->getType()->getIntegerBitWidth(), P_OTHER) : Val::unk()); }
          }
          for (auto &T : forks) work.push_back(std::move(T));
          continue;
        }
        if (S.stack.size() > 64) { alarm(S, "BUDGET", I, "call depth"); S.aborted = true; continue; }
        if (tabulableFn(callee) && cb->arg_size() == 1 && tabulatedCall(S, cb, callee)) continue;
        Frame NF; NF.F = callee; NF.callsite = cb;
        unsigned ai = 0;
        for (auto &A : callee->args()) { if (ai < cb->arg_size()) NF.regs[&A] = getVal(S, cb->getArgOperand(ai)); ai++; }
        NF.bb = &callee->getEntryBlock(); NF.it = NF.bb->begin();
        S.stack.push_back(std::move(NF));
        continue;
      }
      // anything else: unknown result
      if (!I->getType()->isVoidTy()) defReg(S, I, I->getType()->isIntegerTy() ? Val::top(I->getType()->getIntegerBitWidth(), P_OTHER) : Val::unk());
      ++S.stack.back().it;
    }
  }

  static std::string rangeStr(const Val &v) {
    if (v.r.isFullSet()) return "[any]";
    return "[" + i128s((i128)v.r.getSignedMin().getSExtValue()) + "," + i128s((i128)v.r.getSignedMax().getSExtValue()) + "]";
  }

  static Val addOffset(State &S, Val p, Val idx, uint64_t scale) {
    if (idx.k != Val::INT) { p.r = ConstantRange::getFull(64); p.root = -1; return p; }
    tighten(S, idx);
    ConstantRange ir = idx.r.sextOrTrunc(64);
    if (idx.w < 64) ir = idx.r.signExtend(64);
    ConstantRange add = ir.multiply(ConstantRange(APInt(64, scale)));
    Val r = p;
    r.r = p.r.add(add);
    r.root = -1;
    if (idx.isConst()) { if (p.root >= 0) { r.root = p.root; r.rk = p.rk + (i128)idx.constVal().getSExtValue() * (i128)scale; } }
    else if (idx.root >= 0 && scale == 1 && p.r.isSingleElement()) { r.root = idx.root; r.rk = idx.rk + p.r.getSingleElement()->getSExtValue(); }
    r.prov |= idx.prov;
    r.hascs = false;
    if (p.r.isSingleElement() && p.r.getSingleElement()->isZero() && scale == 1 && idx.k == Val::INT && idx.hascs) { r.hascs = true; r.cs = idx.cs; }
    // pointers into the untracked remainder of a caller string are all alike (every byte there is the summary cell and
    // strings carry no read obligations): canonicalise so that string-walking loops reach a fixpoint at once
    if (r.reg >= 0 && S.regions[r.reg].isString && !r.r.isFullSet() && !r.r.isEmptySet() && !r.r.isSignWrappedSet()) {
      int64_t tracked = (int64_t)S.regions[r.reg].rd().bytes.size();
      if (r.r.getSignedMin().getSExtValue() >= tracked) { r.r = ConstantRange::getNonEmpty(APInt(64, (uint64_t)tracked), APInt(64, 1ULL << 62)); r.root = -1; }
    }
    // known bits of the offset (table index masks such as (x | 1) & 0x3f)
    r.kb = KnownBits(64);
    if (p.r.isSingleElement() && scale == 1 && idx.k == Val::INT && !idx.kb.hasConflict()) {
      KnownBits ik = idx.w < 64 ? idx.kb.zext(64) : idx.kb;
      if (idx.w < 64 && !idx.kb.isNonNegative()) ik = KnownBits(64);
      r.kb = KnownBits::computeForAddSub(true, false, KnownBits::makeConstant(*p.r.getSingleElement()), ik);
      if (r.kb.hasConflict()) r.kb = KnownBits(64);
    }
    return r;
  }

  bool loopOk(State &S, BasicBlock *to, Instruction *I) {
    Frame &F = S.stack.back();
    if (F.visits[to] > CFG.loopFuel) {
      alarm(S, "BUDGET", I, "loop iteration budget exceeded");
      S.aborted = true; S.abortMsg = "budget";
      return false;
    }
    return true;
  }
};

#include "xai_main.h"
