// xai_main.h - scenario parsing, cell execution, result output (included by xai.cc)
static std::string jstr(const std::string &s) {
  std::string o = "\"";
  for (unsigned char c : s) {
    if (c == '"') o += "\\\""; else if (c == '\\') o += "\\\\"; else if (c < 0x20 || c >= 0x7f) { char b[8]; snprintf(b, sizeof b, "\\u%04x", c); o += b; } else o.push_back((char)c);
  }
  return o + "\"";
}

static i128 parseI128(const json::Value &v) {
  if (auto i = v.getAsInteger()) return (i128)*i;
  if (auto s = v.getAsString()) {
    std::string t = s->str(); bool neg = false; size_t k = 0; if (!t.empty() && t[0] == '-') { neg = true; k = 1; }
    i128 x = 0; for (; k < t.size(); k++) x = x * 10 + (t[k] - '0');
    return neg ? -x : x;
  }
  return 0;
}

static std::string setHex(const std::bitset<256> &cs) {
  static const char *d = "0123456789abcdef";
  std::string s;
  for (int b = 0; b < 32; b++) { unsigned v = 0; for (int i = 0; i < 8; i++) if (cs[b * 8 + i]) v |= 1u << i; s.push_back(d[v >> 4]); s.push_back(d[v & 15]); }
  return s;
}

static void loadConfig(const json::Object &o) {
  if (auto v = o.getInteger("track")) CFG.track = *v;
  if (auto v = o.getInteger("maxSteps")) CFG.maxSteps = *v;
  if (auto v = o.getInteger("maxPaths")) CFG.maxPaths = *v;
  if (auto v = o.getInteger("maxWallSec")) CFG.maxWallSec = *v;
  if (auto v = o.getInteger("loopFuel")) CFG.loopFuel = *v;
  if (auto v = o.getInteger("concrMax")) CFG.concrMax = (int)*v;
  if (auto v = o.getInteger("widenAfter")) CFG.widenAfter = (int)*v;
  if (auto v = o.getBoolean("dedupe")) CFG.dedupe = *v;
  if (auto v = o.getBoolean("trackInit")) CFG.trackInit = *v;
  if (auto v = o.getInteger("frameForkWiden")) CFG.frameForkWiden = (int)*v;
  if (auto v = o.getInteger("ptrWidenAfter")) CFG.ptrWidenAfter = (int)*v;
  if (auto v = o.getInteger("longLoop")) CFG.longLoop = (int)*v;
  if (auto v = o.getInteger("forkyLoop")) CFG.forkyLoop = (int)*v;
  if (auto v = o.getInteger("fmtForkMax")) CFG.fmtForkMax = *v;
  if (auto v = o.getString("reportRegion")) CFG.reportRegion = v->str();
  if (auto a = o.getArray("traceRegions")) for (auto &x : *a) if (auto s = x.getAsString()) CFG.traceRegions.insert(s->str());
  if (auto v = o.getInteger("reportLimit")) CFG.reportLimit = *v;
  if (auto v = o.getString("wsetResetAfter")) CFG.wsetResetAfter = v->str();
  if (auto a = o.getArray("fields"))
    for (auto &f : *a) { auto &fo = *f.getAsObject(); FieldSpec fs; fs.name = fo.getString("name")->str(); fs.lo = *fo.getInteger("lo"); fs.hi = *fo.getInteger("hi"); fs.writable = *fo.getBoolean("writable"); CFG.fields.push_back(fs); }
  if (auto c = o.getObject("contracts"))
    for (auto &kv : *c) {
      std::vector<Effect> effs;
      for (auto &e : *kv.second.getAsArray()) {
        auto &eo = *e.getAsObject(); Effect ef; ef.op = eo.getString("op")->str();
        if (auto v = eo.getInteger("ptr")) ef.ptr = (int)*v;
        if (auto v = eo.getInteger("len")) ef.len = (int)*v;
        if (auto v = eo.getInteger("size")) ef.size = *v;
        if (auto v = eo.getInteger("off")) ef.off = *v;
        if (auto v = eo.getString("prov")) ef.prov = v->str();
        if (auto v = eo.getInteger("lo")) ef.retlo = *v;
        if (auto v = eo.getInteger("hi")) ef.rethi = *v;
        if (auto v = eo.getInteger("lenptr")) ef.lenptr = (int)*v;
        if (auto v = eo.getInteger("hiarg")) ef.hiarg = (int)*v;
        if (auto v = eo.getBoolean("null")) ef.mayNull = *v;
        if (auto v = eo.getInteger("maxlen")) ef.maxlen = *v;
        effs.push_back(ef);
      }
      CFG.contracts[kv.first.str()] = effs;
    }
}

static State baseState() {
  State S;
  for (auto &g : M->globals()) {
    uint64_t sz = g.getValueType()->isSized() ? DLp->getTypeAllocSize(g.getValueType()) : 0;
    int r = newRegion(S, "@" + std::string(g.getName()), RK_GLOBAL, sz, sz);
    S.regions[r].gv = &g; S.regions[r].readonly = g.isConstant();
    GlobalRegion[&g] = r;
    if (!g.isConstant() && g.hasInitializer() && g.getInitializer()->isNullValue()) { S.regions[r].w().rest = constCell(0); }
  }
  ErrnoRegion = newRegion(S, "errno", RK_ERRNO, 4, 4);
  MapFailedRegion = newRegion(S, "MAP_FAILED", RK_FREED, 0, 0);
  S.regions[MapFailedRegion].live = false;
  return S;
}

static bool setupCell(const json::Object &cell, State &S, std::string &err) {
  auto entry = cell.getString("entry");
  Function *F = entry ? M->getFunction(*entry) : nullptr;
  if (!F || F->isDeclaration()) { err = "entry function not found: " + (entry ? entry->str() : std::string("?")); return false; }
  if (auto ra = cell.getArray("roots"))
    for (auto &r : *ra) {
      auto &ro = *r.getAsObject(); Root R; R.name = ro.getString("name")->str();
      R.isUnsigned = ro.getBoolean("unsigned").getValueOr(false);
      R.lo = parseI128(*ro.get("lo")); R.hi = parseI128(*ro.get("hi"));
      if (auto p = ro.getString("prov")) R.prov = provByName(p->str()) == P_OTHER ? (p->str() == "count" ? P_COUNT : p->str() == "size" ? P_SIZE : P_OTHER) : provByName(p->str());
      S.roots.push_back(R);
    }
  std::map<std::string, int> rid;
  if (auto ra = cell.getArray("regions"))
    for (auto &r : *ra) {
      auto &ro = *r.getAsObject();
      std::string name = ro.getString("name")->str(), kind = ro.getString("kind").getValueOr("buf").str();
      int id = newRegion(S, name, kind == "cstr" ? RK_CSTR : RK_INPUT, 0, 0);
      Region &R = S.regions[id];
      rid[name] = id;
      if (name == CFG.reportRegion && CFG.reportLimit > 0) R.w().wlimit = CFG.reportLimit;
      if (CFG.traceRegions.count(name)) R.traced = true;
      uint8_t prov = provByName(ro.getString("prov").getValueOr("other").str());
      RegionData &D = R.w();
      std::string head;
      if (auto h = ro.getString("bytes")) { std::string hx = h->str(); for (size_t i = 0; i + 1 < hx.size(); i += 2) head.push_back((char)std::stoi(hx.substr(i, 2), nullptr, 16)); }
      ByteCell tail; tail.cs.set(); tail.prov = prov;
      if (auto t = ro.getString("tailset")) { std::string hx = t->str(); tail.cs.reset(); for (int b = 0; b < 32 && (size_t)(2 * b + 1) < hx.size(); b++) { unsigned v = (unsigned)std::stoi(hx.substr(2 * b, 2), nullptr, 16); for (int i = 0; i < 8; i++) if (v & (1u << i)) tail.cs.set(b * 8 + i); } }
      std::string init = ro.getString("init").getValueOr("any").str();
      if (init == "zero") tail = constCell(0, prov);
      D.rest = tail; D.provAll = tail.prov;
      if (kind == "cstr") {
        R.isString = true; R.readonly = true;
        bool hasTail = ro.getBoolean("tail").getValueOr(false);
        for (char c : head) D.bytes.push_back(constCell((uint8_t)c, prov));
        if (auto hs = ro.getArray("headsets"))
          for (auto &h : *hs) { std::string hx = h.getAsString()->str(); ByteCell c; c.cs.reset(); c.prov = prov; for (int b = 0; b < 32 && (size_t)(2 * b + 1) < hx.size(); b++) { unsigned v = (unsigned)std::stoi(hx.substr(2 * b, 2), nullptr, 16); for (int i = 0; i < 8; i++) if (v & (1u << i)) c.cs.set(b * 8 + i); } D.bytes.push_back(c); }
        if (!hasTail) { size_t n = D.bytes.size(); D.bytes.push_back(constCell(0, prov)); R.sizeLo = R.sizeHi = (i128)n + 1; D.rest = constCell(0, prov); R.isString = false; R.readonly = true; }
        else {
          // unknown continuation: tracked tail cells of the given set (may contain NUL), exact length optionally tied to a root
          int64_t ntail = ro.getInteger("tailtrack").getValueOr(0);
          for (int64_t i = 0; i < ntail; i++) D.bytes.push_back(tail);
          R.sizeLo = (i128)head.size() + 1; R.sizeHi = (i128)1 << 40;
          if (auto sr = ro.getInteger("len_root")) { R.sizeRoot = (int)*sr; R.sizeK = 1; }   // size == strlen + 1
        }
      } else {
        if (auto sr = ro.getInteger("size_root")) { R.sizeRoot = (int)*sr; R.sizeK = ro.getInteger("size_k").getValueOr(0); R.sizeLo = 0; R.sizeHi = (i128)1 << 40; }
        else { R.sizeLo = R.sizeHi = ro.getInteger("size").getValueOr(0); }
        for (char c : head) D.bytes.push_back(constCell((uint8_t)c, prov));
        if (auto hs = ro.getArray("headsets"))      // per-byte value sets of an initialised buffer
          for (auto &h : *hs) { std::string hx = h.getAsString()->str(); ByteCell c; c.cs.reset(); c.prov = prov; for (int b = 0; b < 32 && (size_t)(2 * b + 1) < hx.size(); b++) { unsigned v = (unsigned)std::stoi(hx.substr(2 * b, 2), nullptr, 16); for (int i = 0; i < 8; i++) if (v & (1u << i)) c.cs.set(b * 8 + i); } D.bytes.push_back(c); }
        if (ro.getBoolean("fieldmap").getValueOr(false)) R.fieldmap = 0;
        if (ro.getBoolean("heap").getValueOr(false)) R.kind = RK_HEAP;
        if (auto arv = ro.getInteger("align_root")) R.alignRoot = (int)*arv;
        if (ro.getBoolean("uninit").getValueOr(false)) R.w().trackInit = true;
      }
    }
  Frame NF; NF.F = F; NF.bb = &F->getEntryBlock(); NF.it = NF.bb->begin();
  auto aa = cell.getArray("args");
  unsigned ai = 0;
  for (auto &A : F->args()) {
    if (!aa || ai >= aa->size()) { err = "too few args"; return false; }
    auto &ao = *(*aa)[ai++].getAsObject();
    Val v;
    if (ao.getBoolean("null").getValueOr(false)) v = Val::null();
    else if (auto p = ao.getString("ptr")) { if (!rid.count(p->str())) { err = "unknown region " + p->str(); return false; } v = Val::ptr(rid[p->str()], ao.getInteger("off").getValueOr(0)); }
    else if (auto r = ao.getInteger("root")) { unsigned w = A.getType()->getIntegerBitWidth(); v = Val::top(w); v.root = (int)*r; v.rk = 0; v.prov = S.roots[*r].prov; }
    else if (ao.get("int")) { unsigned w = A.getType()->isIntegerTy() ? A.getType()->getIntegerBitWidth() : 64; v = Val::capint(APInt(w, (uint64_t)parseI128(*ao.get("int")), true)); }
    else v = A.getType()->isIntegerTy() ? Val::top(A.getType()->getIntegerBitWidth()) : Val::unk();
    NF.regs[&A] = v;
  }
  S.stack.push_back(std::move(NF));
  return true;
}

static std::string pathRecord(State &S, std::map<std::string, int> &setTable, std::vector<std::string> &sets) {
  std::string o = "{";
  Val rv = S.stack.empty() ? Val::unk() : S.stack.back().regs.lookup(nullptr);
  std::string ret;
  if (S.aborted) ret = "abort";
  else if (rv.k == Val::PTR) { i128 lo, hi; offsetBounds(S, rv, lo, hi); ret = rv.reg < 0 ? "null" : ("ptr:" + S.regions[rv.reg].name + "+" + i128s(lo) + (lo != hi ? ".." + i128s(hi) : "") + (rv.maybenull ? "?" : "")); }
  else if (rv.k == Val::INT) { tighten(S, rv); ret = "int:" + (rv.r.isFullSet() ? std::string("any") : i128s((i128)rv.r.getSignedMin().getSExtValue()) + ".." + i128s((i128)rv.r.getSignedMax().getSExtValue())); }
  else ret = "void";
  o += "\"ret\":" + jstr(ret);
  if (S.aborted) o += ",\"abort\":" + jstr(S.abortMsg);
  o += ",\"roots\":[";
  for (size_t i = 0; i < S.roots.size(); i++) { if (i) o += ","; o += "[\"" + i128s(S.roots[i].lo) + "\",\"" + i128s(S.roots[i].hi) + "\"]"; }
  o += "],\"errno\":";
  if (!S.errnoSet) o += "null";
  else if (S.errnoVal.k == Val::INT && !S.errnoVal.r.isFullSet()) o += "[" + i128s((i128)S.errnoVal.r.getSignedMin().getSExtValue()) + "," + i128s((i128)S.errnoVal.r.getSignedMax().getSExtValue()) + "]";
  else o += "\"any\"";
  o += ",\"errno_at\":" + jstr(S.errnoAt);
  o += ",\"alarms\":[";
  for (size_t i = 0; i < S.alarms.size(); i++) { auto &a = S.alarms[i]; if (i) o += ","; o += "{\"kind\":" + jstr(a.kind) + ",\"fn\":" + jstr(a.fn) + ",\"line\":" + std::to_string(a.line) + ",\"msg\":" + jstr(a.msg) + "}"; }
  o += "],\"nW\":" + std::to_string(S.nW) + ",\"nR\":" + std::to_string(S.nR) + ",\"nIdx\":" + std::to_string(S.nIdx) + ",\"steps\":" + std::to_string(S.steps) + ",\"wrote\":" + (S.wroteReport ? "true" : "false");
  o += ",\"live_heap\":[";
  { bool f = true; for (auto &R : S.regions) if (R.kind == RK_HEAP && R.live && (R.name.rfind("malloc@", 0) == 0 || R.name.rfind("realloc@", 0) == 0 || R.name.rfind("mmap@", 0) == 0)) { if (!f) o += ","; f = false; o += jstr(R.name); } }
  o += "]";
  o += ",\"events\":[";
  for (size_t i = 0; i < S.events.size(); i++) { if (i) o += ","; o += S.events[i]; }
  o += "]";
  if (!CFG.reportRegion.empty())
    for (auto &R : S.regions) if (R.name == CFG.reportRegion) {
      { int64_t ml = -1; int64_t mh = R.rd().nulAfter(0, &ml); o += ",\"nul\":[" + std::to_string(ml) + "," + std::to_string(mh) + "]"; }
      o += ",\"wset\":\"" + setHex(R.rd().wset) + "\"";
      o += ",\"scalars\":[";
      { bool f = true; for (auto &kv : R.rd().scalars) { Val sv = kv.second.second; if (sv.k != Val::INT) continue; tighten(S, sv); if (!f) o += ","; f = false;
          o += "[" + std::to_string(kv.first) + "," + std::to_string(kv.second.first) + ",\"" + (sv.r.isFullSet() || sv.r.isWrappedSet() ? std::string("any") : i128s((i128)sv.r.getUnsignedMin().getZExtValue())) + "\",\"" + (sv.r.isFullSet() || sv.r.isWrappedSet() ? std::string("any") : i128s((i128)sv.r.getUnsignedMax().getZExtValue())) + "\"]"; } }
      o += "]";
      o += ",\"out\":[";
      const RegionData &D = R.rd();
      size_t n = std::min(D.bytes.size(), (size_t)400);
      for (size_t i = 0; i < n; i++) {
        const ByteCell &c = D.bytes[i];
        std::string hx = setHex(c.cs);
        auto it = setTable.find(hx); int idx;
        if (it == setTable.end()) { idx = (int)sets.size(); setTable[hx] = idx; sets.push_back(hx); } else idx = it->second;
        if (i) o += ",";
        o += "[" + std::to_string(idx) + "," + std::to_string(c.prov) + "]";
        if (c.cs.count() == 1 && c.cs[0]) break;
      }
      o += "]";
      break;
    }
  return o + "}";
}

int main(int argc, char **argv) {
  if (argc < 3) { errs() << "usage: xai prog.bc scenario.json\n"; return 2; }
  LLVMContext ctx; SMDiagnostic err;
  std::unique_ptr<Module> Mod = parseIRFile(argv[1], err, ctx);
  if (!Mod) { err.print("xai", errs()); return 2; }
  M = Mod.get(); DLp = &M->getDataLayout();
  auto buf = MemoryBuffer::getFile(argv[2]);
  if (!buf) { errs() << "cannot read scenario\n"; return 2; }
  auto js = json::parse((*buf)->getBuffer());
  if (!js) { errs() << "scenario: bad JSON: " << toString(js.takeError()) << "\n"; return 2; }
  auto &top = *js->getAsObject();
  if (auto c = top.getObject("config")) loadConfig(*c);
  State base = baseState();
  raw_ostream &O = outs();
  std::map<std::string, int> setTable; std::vector<std::string> sets;
  O << "{\"cells\":[\n";
  bool firstCell = true;
  for (auto &cv : *top.getArray("cells")) {
    auto &cell = *cv.getAsObject();
    State S = base; std::string e;
    if (!firstCell) O << ",\n";
    firstCell = false;
    O << "{\"id\":" << jstr(cell.getString("id").getValueOr("?").str());
    if (!setupCell(cell, S, e)) { O << ",\"error\":" << jstr(e) << "}"; continue; }
    Engine E;
    SeenStates.clear();
    cellTrace() = CellTrace();
    E.work.push_back(std::move(S));
    int64_t npaths = 0, ndedup = 0; bool budget = false;
    CellDeadline = time(nullptr) + CFG.maxWallSec;
    std::map<std::string, int> recs; std::vector<std::string> order;
    while (!E.work.empty()) {
      State T = std::move(E.work.back()); E.work.pop_back();
      E.run(std::move(T));
      for (auto &D : E.done) {
        if (getenv("XAI_TRACE_DONE") && D.steps > 100000) errs() << "[done] steps=" << D.steps << " aborted=" << D.aborted << " msg=" << D.abortMsg << " dedup=" << D.dedup << " alarms=" << D.alarms.size() << "\n";
        if (D.aborted && D.abortMsg == "infeasible") { if (D.dedup) { ndedup++; continue; } if (D.alarms.empty()) continue; D.abortMsg = "pruned"; }
        npaths++;
        std::string r = pathRecord(D, setTable, sets);
        if (!recs.count(r)) order.push_back(r);
        recs[r]++;
      }
      E.done.clear();
      if (npaths > CFG.maxPaths || time(nullptr) > CellDeadline) { budget = true; break; }
    }
    if (!CFG.traceRegions.empty()) {
      O << ",\"reads\":{"; bool f = true;
      for (auto &kv : cellTrace().reads) {
        if (!f) O << ","; f = false;
        O << jstr(kv.first) << ":[";
        bool f2 = true;
        for (size_t i = 0; i < 1024;) { if (!kv.second[i]) { i++; continue; } size_t j = i; while (j < 1024 && kv.second[j]) j++; if (!f2) O << ","; f2 = false; O << "[" << i << "," << j << "]"; i = j; }
        O << "]";
      }
      O << "},\"trace\":["; f = true;
      for (auto &e : cellTrace().events) { if (!f) O << ","; f = false; O << e; }
      O << "]";
    }
    O << ",\"ndedup\":" << ndedup << ",\"npaths\":" << npaths << ",\"budget\":" << (budget ? "true" : "false") << ",\"paths\":[";
    for (size_t i = 0; i < order.size(); i++) { if (i) O << ","; O << "\n " << order[i]; }
    O << "]}";
  }
  O << "\n],\"sets\":[";
  for (size_t i = 0; i < sets.size(); i++) { if (i) O << ","; O << "\"" << sets[i] << "\""; }
  O << "]}\n";
  return 0;
}
