// xai_mem.h - regions and memory of the XAI interpreter
#pragma once
#include "xai_val.h"
#include "llvm/IR/GlobalVariable.h"
#include <map>
#include <algorithm>

struct ByteCell {
  std::bitset<256> cs;      // possible values
  uint8_t prov = 0;
  ByteCell() { cs.set(); prov = P_UNINIT; }
};

enum RKind : uint8_t { RK_STACK, RK_GLOBAL, RK_HEAP, RK_INPUT, RK_CSTR, RK_ERRNO, RK_FREED };

struct RegionData {
  std::vector<ByteCell> bytes;          // densely tracked prefix of the region
  std::map<int64_t, ByteCell> sparse;   // individually tracked bytes beyond the dense prefix (constant-offset writes)
  ByteCell rest;                        // summary of every other byte
  uint8_t provAll = 0;                  // union of every provenance ever written into the region (monotone)
  std::bitset<256> wset; int64_t wlimit = -1;       // byte values ever written below offset wlimit (report region only)
  std::vector<std::pair<int64_t, int64_t>> written;   // merged [lo,hi) intervals that have (possibly) been written since the region came to life
  bool trackInit = false;                           // region starts with indeterminate content: reads of never-written bytes are reported
  void addWritten(i128 a, i128 b) {
    if (!trackInit || b <= a) return;
    int64_t lo = (int64_t)std::max(a, (i128)0), hi = (int64_t)std::min(b, (i128)1 << 40);
    std::vector<std::pair<int64_t, int64_t>> out;
    for (auto &w : written) {
      if (w.second < lo || w.first > hi) out.push_back(w);
      else { lo = std::min(lo, w.first); hi = std::max(hi, w.second); }
    }
    out.emplace_back(lo, hi);
    std::sort(out.begin(), out.end());
    written.swap(out);
  }
  // fills of symbolic length: bytes [lo, lo + root + k) were written, root being an interval root of the state; how many
  // bytes that is for certain is decided when a read is checked (the root may have been refined since)
  std::vector<std::tuple<int64_t, int, int64_t>> writtenLinked;
  void addWrittenLinked(i128 lo, int root, i128 k) {
    if (!trackInit || root < 0) return;
    auto t = std::make_tuple((int64_t)lo, root, (int64_t)k);
    for (auto &x : writtenLinked) if (x == t) return;
    if (writtenLinked.size() < 16) writtenLinked.push_back(t);
  }
  // first never-written byte in [a,b), or -1; `extra` holds the certainly written part of the linked fills
  int64_t firstUnwritten(i128 a, i128 b, const std::vector<std::pair<int64_t, int64_t>> *extra = nullptr) const {
    if (!trackInit) return -1;
    int64_t pos = (int64_t)a;
    std::vector<std::pair<int64_t, int64_t>> all;
    const std::vector<std::pair<int64_t, int64_t>> *use = &written;
    if (extra && !extra->empty()) { all = written; all.insert(all.end(), extra->begin(), extra->end()); std::sort(all.begin(), all.end()); use = &all; }
    for (auto &w : *use) {
      if (w.second <= pos) continue;
      if (w.first > pos) break;
      pos = w.second;
      if (pos >= b) return -1;
    }
    return pos < b ? pos : -1;
  }
  std::vector<std::pair<int64_t, int64_t>> nuls;   // each: a 0 byte was stored at one offset in [lo,hi] and not overwritten since
  void noteWrite(i128 a, i128 b, bool isNul, bool mark = true) {          // write of [a,b); mark: counts as initialising
    if (mark) addWritten(a, b);
    // any write invalidates terminators it may overwrite
    for (size_t i = 0; i < nuls.size();) { if (a <= nuls[i].second && b > nuls[i].first) nuls.erase(nuls.begin() + (long)i); else i++; }
    if (isNul && b - a >= 1) {
      nuls.emplace_back((int64_t)a, (int64_t)(b - 1));
      std::sort(nuls.begin(), nuls.end());
      if (nuls.size() > 12) nuls.resize(12);
    }
  }
  // first recorded terminator at or after offset o: returns hi or -1
  int64_t nulAfter(i128 o, int64_t *lo = nullptr) const {
    for (auto &m : nuls) if (m.first >= o) { if (lo) *lo = m.first; return m.second; }
    return -1;
  }
  mutable uint64_t hcache = 0; mutable bool hvalid = false;   // cached content hash (invalidated by Region::w())
  std::map<int64_t, std::pair<unsigned, Val>> scalars;   // exact-offset typed cells (offset -> (size, value))

  const ByteCell &get(i128 o) const {
    if (o >= 0 && o < (i128)bytes.size()) return bytes[(size_t)o];
    auto it = sparse.find((int64_t)o);
    return it != sparse.end() ? it->second : rest;
  }
  void setStrong(i128 o, const ByteCell &c) {
    if (o < 0) return;
    provAll |= c.prov;
    if (o < wlimit) wset |= c.cs;
    if (o < (i128)bytes.size()) bytes[(size_t)o] = c; else sparse[(int64_t)o] = c;
  }
  void join(i128 o, const ByteCell &c) {
    if (o < 0) return;
    provAll |= c.prov;
    if (o < wlimit) wset |= c.cs;
    if (o < (i128)bytes.size()) { bytes[(size_t)o].cs |= c.cs; bytes[(size_t)o].prov |= c.prov; return; }
    auto it = sparse.find((int64_t)o);
    if (it != sparse.end()) { it->second.cs |= c.cs; it->second.prov |= c.prov; }
    else { ByteCell n = rest; n.cs |= c.cs; n.prov |= c.prov; sparse[(int64_t)o] = n; }
  }
  // weak update of every byte in [lo,hi)
  void joinRange(i128 lo, i128 hi, const ByteCell &c) {
    if (lo < 0) lo = 0;
    provAll |= c.prov;
    if (lo < wlimit) wset |= c.cs;
    for (i128 o = lo; o < hi && o < (i128)bytes.size(); o++) { bytes[(size_t)o].cs |= c.cs; bytes[(size_t)o].prov |= c.prov; }
    if (hi > (i128)bytes.size()) {
      for (auto it = sparse.lower_bound((int64_t)std::max(lo, (i128)bytes.size())); it != sparse.end() && it->first < hi; ++it) { it->second.cs |= c.cs; it->second.prov |= c.prov; }
      rest.cs |= c.cs; rest.prov |= c.prov;
    }
  }
  // strong update of every byte in [lo,hi) with the same cell
  void fillRange(i128 lo, i128 hi, const ByteCell &c) {
    if (lo < 0) lo = 0;
    provAll |= c.prov;
    if (lo < wlimit && hi > lo) wset |= c.cs;
    for (i128 o = lo; o < hi && o < (i128)bytes.size(); o++) bytes[(size_t)o] = c;
    i128 b = std::max(lo, (i128)bytes.size());
    if (hi > b) {
      if (hi - b <= 2048) { for (i128 o = b; o < hi; o++) sparse[(int64_t)o] = c; }
      else {
        sparse.erase(sparse.lower_bound((int64_t)b), sparse.lower_bound((int64_t)hi));
        rest.cs |= c.cs; rest.prov |= c.prov;     // over-approximation: untracked bytes in range become rest U c
      }
    }
  }
  i128 scanLimit() const { i128 l = (i128)bytes.size(); if (!sparse.empty()) l = std::max(l, (i128)sparse.rbegin()->first + 1); return l; }
};

struct Region {
  int id = -1;
  std::string name;
  RKind kind = RK_STACK;
  i128 sizeLo = 0, sizeHi = 0;          // size in bytes (interval)
  int sizeRoot = -1; i128 sizeK = 0;    // size == roots[sizeRoot] + sizeK
  bool readonly = false;
  bool isString = false;                // RK_CSTR: no read obligations, length unknown beyond head
  const GlobalVariable *gv = nullptr;   // RK_GLOBAL with constant initializer (content read from IR)
  std::shared_ptr<RegionData> d;        // copy-on-write
  // field map (for struct crypt_data): name, lo, hi, writable
  int fieldmap = -1;
  bool live = true;
  int alignRoot = -1;                   // base address mod 2^k is roots[alignRoot] (k <= 6)
  int frame = -1;                       // owning frame depth for stack regions
  bool traced = false;                  // read offsets are recorded (CFG.traceRegions)

  RegionData &w() {
    if (!d) d = std::make_shared<RegionData>();
    else if (d.use_count() > 1) d = std::make_shared<RegionData>(*d);
    d->hvalid = false;
    return *d;
  }
  const RegionData &rd() const { static RegionData empty; return d ? *d : empty; }
};

struct FieldSpec { std::string name; int64_t lo, hi; bool writable; };
