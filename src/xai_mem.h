// xai_mem.h - regions and memory of the XAI interpreter
#pragma once
#include "xai_val.h"
#include "llvm/IR/GlobalVariable.h"
#include <map>

struct ByteCell {
  std::bitset<256> cs;      // possible values
  uint8_t prov = 0;
  ByteCell() { cs.set(); prov = P_UNINIT; }
};

enum RKind : uint8_t { RK_STACK, RK_GLOBAL, RK_HEAP, RK_INPUT, RK_CSTR, RK_ERRNO, RK_FREED };

struct RegionData {
  std::vector<ByteCell> bytes;          // tracked prefix of the region
  ByteCell rest;                        // summary of everything beyond `bytes`
  std::map<int64_t, std::pair<unsigned, Val>> scalars;   // exact-offset typed cells (offset -> (size, value))
};

struct Region {
  int id = -1;
  std::string name;
  RKind kind = RK_STACK;
  i128 sizeLo = 0, sizeHi = 0;          // size in bytes (interval)
  int sizeRoot = -1; i128 sizeK = 0;    // size == roots[sizeRoot] + sizeK
  bool readonly = false;
  bool isString = false;                // RK_CSTR: no read obligations, length unknown beyond head
  const GlobalVariable *gv = nullptr;   // RK_GLOBAL with constant initializer (content read from IR)
  std::shared_ptr<RegionData> d;        // copy-on-write
  // field map (for struct crypt_data): name, lo, hi, writable
  int fieldmap = -1;
  bool live = true;
  int frame = -1;                       // owning frame depth for stack regions

  RegionData &w() {
    if (!d) d = std::make_shared<RegionData>();
    else if (d.use_count() > 1) d = std::make_shared<RegionData>(*d);
    return *d;
  }
  const RegionData &rd() const { static RegionData empty; return d ? *d : empty; }
};

struct FieldSpec { std::string name; int64_t lo, hi; bool writable; };
