// xai_memops.h - loads, stores, bulk memory operations and their obligations
#pragma once
#include "xai_ops.h"
#include "llvm/Analysis/ConstantFolding.h"
#include "llvm/IR/Constants.h"

extern std::map<const GlobalVariable *, int> GlobalRegion;

inline int newRegion(State &S, const std::string &name, RKind kind, i128 lo, i128 hi) {
  Region R; R.id = (int)S.regions.size(); R.name = name; R.kind = kind; R.sizeLo = lo; R.sizeHi = hi;
  S.regions.push_back(R);
  return R.id;
}

inline void regionSize(const State &S, const Region &R, i128 &lo, i128 &hi) {
  lo = R.sizeLo; hi = R.sizeHi;
  if (R.sizeRoot >= 0) {
    lo = std::max((i128)0, S.roots[R.sizeRoot].lo + R.sizeK);
    hi = std::max((i128)0, S.roots[R.sizeRoot].hi + R.sizeK);
  }
}

inline int64_t trackedBytes(const State &S, const Region &R) {
  i128 lo, hi; regionSize(S, R, lo, hi);
  i128 t = std::min(hi, (i128)CFG.track);
  return (int64_t)t;
}

inline void ensureTracked(State &S, Region &R) {
  int64_t t = trackedBytes(S, R);
  RegionData &D = R.w();
  if ((int64_t)D.bytes.size() < t) D.bytes.resize((size_t)t, D.rest);
}

inline void offsetBounds(const State &S, Val p, i128 &lo, i128 &hi) {
  tighten(S, p);
  if (p.r.isEmptySet()) { lo = 0; hi = -1; return; }
  if (p.r.isFullSet() || p.r.isSignWrappedSet()) { lo = -((i128)1 << 62); hi = ((i128)1 << 62); return; }
  lo = p.r.getSignedMin().getSExtValue(); hi = p.r.getSignedMax().getSExtValue();
}

// bounds/ownership obligation. nlo..nhi = number of bytes accessed (interval). returns false if alarmed.
inline bool checkAccess(State &S, const Val &p, i128 nlo, i128 nhi, bool write, const Instruction *I, const char *what,
                        int lenRoot = -1, i128 lenK = 0, int lenCroot = -1, i128 lenCk = 0) {
  if (nhi <= 0) return true;
  if (p.k != Val::PTR) { alarm(S, write ? "W" : "R", I, std::string(what) + ": access through a value that is not a tracked pointer"); return false; }
  if (p.reg < 0) { alarm(S, "NULL", I, std::string(what) + ": null pointer dereference"); return false; }
  if (p.maybenull) { alarm(S, "NULL", I, std::string(what) + ": pointer may be NULL"); return false; }
  Region &R = S.regions[p.reg];
  if (!R.live) { alarm(S, "UAF", I, std::string(what) + ": access to freed/dead region " + R.name); return false; }
  if (R.isString && !write) return true;          // C strings: reads carry no obligation (length not tracked)
  if (write && (R.readonly || R.isString)) { alarm(S, "W", I, std::string(what) + ": write into read-only/caller string " + R.name); return false; }
  i128 olo, ohi; offsetBounds(S, p, olo, ohi);
  i128 slo, shi; regionSize(S, R, slo, shi);
  bool ok = olo >= 0;
  // symbolic comparison when offset/length and size hang on the same root
  bool symok = false;
  if (R.sizeRoot >= 0) {
    if (p.root == R.sizeRoot && nlo == nhi && p.rk + nhi <= R.sizeK) symok = true;
    if (lenRoot == R.sizeRoot && olo == ohi && olo + lenK <= R.sizeK && olo >= 0) symok = true;
  }
  // offset = root + k1 and length = k2 - root: the end of the access is the constant k1 + k2
  if (!symok && lenCroot >= 0 && p.root == lenCroot && olo >= 0 && p.rk + lenCk <= slo) symok = true;
  if (!symok && ohi + nhi > slo) ok = false;
  if (!ok) {
    alarm(S, write ? "W" : "R", I, std::string(what) + ": " + (write ? "write" : "read") + " of " + i128s(nlo) + ".." + i128s(nhi) + " bytes at " + R.name + "[" + i128s(olo) + ".." + i128s(ohi) + "] may leave the region (size >= " + i128s(slo) + ")");
    return false;
  }
  if (write && R.fieldmap >= 0) {
    // the write must stay inside writable fields
    i128 a = olo, b = ohi + nhi;   // [a,b)
    if (lenCroot >= 0 && p.root == lenCroot) b = std::min(b, p.rk + lenCk);
    for (auto &f : CFG.fields) if (!f.writable && a < f.hi && b > f.lo) {
      alarm(S, "FIELD", I, std::string(what) + ": write touches application-owned field `" + f.name + "` of the data object ([" + i128s(a) + "," + i128s(b) + "))");
      return false;
    }
  }
  if (write) S.nW++; else S.nR++;
  if (write && !CFG.reportRegion.empty() && R.name == CFG.reportRegion) S.wroteReport = true;
  return true;
}

// reads of bytes that were never written since the object came to life (indeterminate content)
inline void checkInit(State &S, const Val &p, i128 nlo, i128 nhi, const Instruction *I, const char *what) {
  if (p.k != Val::PTR || p.reg < 0 || nlo <= 0) return;
  Region &R = S.regions[p.reg];
  if (!R.d || !R.d->trackInit) return;
  i128 olo, ohi; offsetBounds(S, p, olo, ohi);
  if (olo != ohi) return;                       // only exact addresses: no false alarms from blurred offsets
  std::vector<std::pair<int64_t, int64_t>> extra;
  for (auto &t : R.d->writtenLinked) {
    int r = std::get<1>(t);
    if (r < 0 || r >= (int)S.roots.size()) continue;
    i128 len = S.roots[r].lo + std::get<2>(t);
    if (len > 0) extra.emplace_back(std::get<0>(t), (int64_t)std::min((i128)std::get<0>(t) + len, (i128)1 << 40));
  }
  int64_t u = R.d->firstUnwritten(olo, olo + nlo, &extra);
  if (u >= 0) alarm(S, "UNINIT", I, std::string(what) + ": reads " + R.name + "[" + i128s(u) + "], which this call has never written (result would depend on the object's previous content)");
}

inline ByteCell cellOfVal(const Val &v, unsigned byteIdx) {
  ByteCell c; c.cs.reset(); c.prov = v.prov;
  if (v.k == Val::INT && v.isConst()) { APInt a = v.constVal(); c.cs.set((size_t)a.extractBitsAsZExtValue(8, byteIdx * 8)); return c; }
  if (v.k == Val::INT && v.w == 8) {
    if (v.hascs) { c.cs = v.cs; return c; }
    if (!v.r.isFullSet()) { for (int i = 0; i < 256; i++) if (v.r.contains(APInt(8, i))) c.cs.set(i); return c; }
  }
  if (v.k == Val::INT && !v.kb.isUnknown()) {
    APInt one = v.kb.One.extractBits(8, byteIdx * 8), zero = v.kb.Zero.extractBits(8, byteIdx * 8);
    for (int i = 0; i < 256; i++) { APInt x(8, i); if ((x & zero).isZero() && (x & one) == one) c.cs.set(i); }
    return c;
  }
  c.cs.set();
  if (v.k != Val::INT) c.prov |= P_OTHER;
  return c;
}

inline void joinCell(ByteCell &d, const ByteCell &s) { d.cs |= s.cs; d.prov |= s.prov; }

inline void eraseScalars(RegionData &D, i128 lo, i128 hi) {   // [lo,hi)
  for (auto it = D.scalars.begin(); it != D.scalars.end();) {
    i128 a = it->first, b = a + it->second.first;
    if (a < hi && b > lo) it = D.scalars.erase(it); else ++it;
  }
}

inline void doStore(State &S, const Val &p, const Val &v, unsigned n, const Instruction *I) {
  if (!checkAccess(S, p, n, n, true, I, "store")) return;
  Region &R = S.regions[p.reg];
  if (R.kind == RK_ERRNO) { S.errnoSet = true; S.errnoVal = v; S.errnoAt = I ? (std::string(I->getFunction()->getName()) + ":" + std::to_string(lineOf(I))) : std::string("?"); return; }
  ensureTracked(S, R);
  RegionData &D = R.w();
  i128 olo, ohi; offsetBounds(S, p, olo, ohi);
  { bool isNul = n == 1 && v.k == Val::INT && v.isConst() && v.constVal().isZero();
    if (isNul) D.noteWrite(olo, ohi + 1, true); else D.noteWrite(olo, ohi + n, false); }
  if (olo == ohi) {
    eraseScalars(D, olo, olo + n);
    if (!(v.k == Val::INT && n == 1)) D.scalars[(int64_t)olo] = {n, v};
    for (unsigned i = 0; i < n; i++) D.setStrong(olo + i, cellOfVal(v, i));
  } else {
    eraseScalars(D, olo, ohi + n);
    ByteCell acc; acc.cs.reset(); acc.prov = 0;
    for (unsigned i = 0; i < n; i++) joinCell(acc, cellOfVal(v, i));
    D.joinRange(olo, ohi + n, acc);     // weak, byte position unknown
  }
}

Val constToVal(State &S, const Constant *C);

inline Val loadGlobalConst(State &S, const Region &R, Type *ty, i128 olo, i128 ohi, unsigned n, const KnownBits *okb = nullptr, const std::bitset<256> *ocs = nullptr) {
  const Constant *init = R.gv->getInitializer();
  if (olo == ohi) {
    Constant *c = ConstantFoldLoadFromConst(const_cast<Constant *>(init), ty, APInt(64, (uint64_t)olo), *DLp);
    if (c) return constToVal(S, c);
    return ty->isIntegerTy() ? Val::top(ty->getIntegerBitWidth()) : Val::unk();
  }
  if (ty->isIntegerTy(8) && ohi - olo <= 65536) {
    std::bitset<256> cs;
    Type *i8 = Type::getInt8Ty(M->getContext());
    for (i128 o = olo; o <= ohi; o++) {
      if (ocs && o >= 0 && o < 256 && !(*ocs)[(size_t)o]) continue;
      if (okb && !okb->isUnknown()) { APInt oa(64, (uint64_t)o); if (!(oa & okb->Zero).isZero() || (oa & okb->One) != okb->One) continue; }
      Constant *c = ConstantFoldLoadFromConst(const_cast<Constant *>(init), i8, APInt(64, (uint64_t)o), *DLp);
      if (auto *ci = dyn_cast_or_null<ConstantInt>(c)) cs.set((size_t)ci->getZExtValue()); else { cs.set(); break; }
    }
    return Val::charset(8, cs, P_CONST);
  }
  if (ty->isIntegerTy() && n >= 2 && n <= 8 && ohi - olo <= 262144) {
    // wider elements at a blurred index: known bits and range over every element the index can select (step = element size,
    // offsets restricted by the known bits of the pointer)
    unsigned w = ty->getIntegerBitWidth();
    APInt ones = APInt::getAllOnes(w), zeros = APInt::getAllOnes(w), mn = APInt::getMaxValue(w), mx = APInt(w, 0);
    bool any = false, bad = false;
    for (i128 o = olo; o <= ohi; o++) {
      if (okb && !okb->isUnknown()) { APInt oa(64, (uint64_t)o); if (!(oa & okb->Zero).isZero() || (oa & okb->One) != okb->One) continue; }
      else if ((o - olo) % n) continue;
      Constant *c = ConstantFoldLoadFromConst(const_cast<Constant *>(init), ty, APInt(64, (uint64_t)o), *DLp);
      auto *ci = dyn_cast_or_null<ConstantInt>(c);
      if (!ci) { bad = true; break; }
      const APInt &a = ci->getValue();
      ones &= a; zeros &= ~a; if (a.ult(mn)) mn = a; if (a.ugt(mx)) mx = a; any = true;
    }
    if (any && !bad) {
      KnownBits kb(w); kb.One = ones; kb.Zero = zeros;
      return mkInt(w, ConstantRange::getNonEmpty(mn, mx + 1), kb, P_CONST);
    }
  }
  return ty->isIntegerTy() ? Val::top(ty->getIntegerBitWidth()) : Val::unk();
}

inline ByteCell summariseD(const RegionData &D, i128 lo, i128 hi) {
  ByteCell acc; acc.cs.reset(); acc.prov = 0;
  if (lo < 0) lo = 0;
  for (i128 o = lo; o < hi && o < (i128)D.bytes.size(); o++) joinCell(acc, D.bytes[(size_t)o]);
  if (hi > (i128)D.bytes.size()) {
    i128 b = std::max(lo, (i128)D.bytes.size());
    i128 covered = 0;
    for (auto it = D.sparse.lower_bound((int64_t)b); it != D.sparse.end() && it->first < hi; ++it) { joinCell(acc, it->second); covered++; }
    if (covered < hi - b) joinCell(acc, D.rest);
  }
  return acc;
}
inline Val doLoad1(State &S, const Val &p, Type *ty, const Instruction *I);
inline Val doLoad(State &S, const Val &p, Type *ty, const Instruction *I) {
  Val v = doLoad1(S, p, ty, I);
  if (v.k == Val::INT) v.prov |= p.prov;
  return v;
}
inline Val doLoad1(State &S, const Val &p, Type *ty, const Instruction *I) {
  unsigned n = (unsigned)DLp->getTypeStoreSize(ty);
  unsigned w = ty->isIntegerTy() ? ty->getIntegerBitWidth() : 64;
  auto dflt = [&]() { return ty->isIntegerTy() ? Val::top(w, P_OTHER) : Val::unk(); };
  if (!checkAccess(S, p, n, n, false, I, "load")) return dflt();
  checkInit(S, p, n, n, I, "load");
  Region &R = S.regions[p.reg];
  if (R.kind == RK_ERRNO) {
    // errno as left by the caller is ambient state: a result that depends on it depends on the call history
    if (!S.errnoSet) { Val v = Val::top(32); v.ambient = true; return v; }
    return S.errnoVal;
  }
  i128 olo, ohi; offsetBounds(S, p, olo, ohi);
  if (R.traced) markRead(S, p.reg, olo, ohi + n);
  if (R.gv && R.gv->hasInitializer() && (R.gv->isConstant() || !R.d)) return loadGlobalConst(S, R, ty, olo, ohi, n, &p.kb, p.hascs ? &p.cs : nullptr);
  const RegionData &D = R.rd();
  auto cellAt = [&](i128 o) -> const ByteCell & { return D.get(o); };
  if (olo == ohi) {
    auto it = D.scalars.find((int64_t)olo);
    if (it != D.scalars.end() && it->second.first == n) {
      Val v = it->second.second;
      if (v.k == Val::INT && ty->isIntegerTy() && v.w != w) return Val::top(w, v.prov);
      if (v.k == Val::INT && !ty->isIntegerTy()) return Val::unk();
      tighten(S, v);
      return v;
    }
    if (!ty->isIntegerTy()) return Val::unk();
    if (n == 1) { const ByteCell &c = cellAt(olo); return Val::charset(w, c.cs, c.prov); }
    // compose known bits from the bytes
    KnownBits kb(w); uint8_t prov = 0; bool allconst = true; APInt cv(w, 0);
    for (unsigned i = 0; i < n && i * 8 < w; i++) {
      const ByteCell &c = cellAt(olo + i);
      prov |= c.prov;
      uint8_t ones = 0xff, zeros = 0xff; int cnt = 0, last = 0;
      for (int b = 0; b < 256; b++) if (c.cs[b]) { ones &= b; zeros &= ~b; cnt++; last = b; }
      if (cnt != 1) allconst = false; else cv.insertBits(APInt(8, last), i * 8);
      kb.One.insertBits(APInt(8, cnt ? ones : 0), i * 8); kb.Zero.insertBits(APInt(8, cnt ? zeros : 0), i * 8);
    }
    if (allconst) { Val v = Val::capint(cv); v.prov = prov; return v; }
    return mkInt(w, ConstantRange::getFull(w), kb, prov);
  }
  if (!ty->isIntegerTy()) return Val::unk();
  if (n == 1) {
    ByteCell acc = summariseD(D, olo, ohi + 1);
    return Val::charset(w, acc.cs, acc.prov);
  }
  if (ohi - olo > 64) return Val::top(w, (uint8_t)(D.provAll | D.rest.prov));
  return Val::top(w, summariseD(D, olo, ohi + n).prov);
}

// summary of source bytes [lo,hi)
inline ByteCell summarise(const State &S, const Region &R, i128 lo, i128 hi) {
  ByteCell acc; acc.cs.reset(); acc.prov = 0;
  if (R.gv && R.gv->isConstant()) { acc.cs.set(); acc.prov = P_CONST; return acc; }
  acc = summariseD(R.rd(), lo, hi);
  if (acc.cs.none()) acc.cs.set();
  return acc;
}

inline ByteCell readByte(State &S, const Region &R, i128 o) {
  if (R.gv && R.gv->isConstant() && R.gv->hasInitializer()) {
    Val v = loadGlobalConst(S, R, Type::getInt8Ty(M->getContext()), o, o, 1);
    ByteCell c; c.cs = v.hascs ? v.cs : std::bitset<256>().set(); c.prov = P_CONST; return c;
  }
  return R.rd().get(o);
}

// memcpy/memmove
inline void doCopy(State &S, const Val &dst, const Val &src, Val n, const Instruction *I, const char *what) {
  tighten(S, n);
  if (n.k != Val::INT) { alarm(S, "W", I, std::string(what) + ": length is not an integer"); return; }
  i128 nlo = n.r.isFullSet() ? 0 : (i128)n.r.getUnsignedMin().getZExtValue();
  i128 nhi = n.r.isFullSet() ? ((i128)1 << 62) : (i128)n.r.getUnsignedMax().getZExtValue();
  if (nhi == 0) return;
  bool ok1 = checkAccess(S, dst, nlo, nhi, true, I, what, n.root, n.rk, n.croot, n.ck);
  bool ok2 = checkAccess(S, src, nlo, nhi, false, I, what, n.root, n.rk, n.croot, n.ck);
  if (ok2) checkInit(S, src, nlo, nhi, I, what);
  if (!ok1 || dst.k != Val::PTR || dst.reg < 0) return;
  Region &RD = S.regions[dst.reg];
  ensureTracked(S, RD);
  i128 dlo, dhi; offsetBounds(S, dst, dlo, dhi);
  RegionData &D = RD.w();
  { bool exactDst = dlo == dhi;
    D.noteWrite(dlo, dhi + std::min(nhi, (i128)1 << 40), false, !exactDst);
    if (exactDst) { D.addWritten(dlo, dlo + std::min(nlo, (i128)1 << 40)); if (n.root >= 0 && nlo != nhi) D.addWrittenLinked(dlo, n.root, n.rk); } }
  if (!ok2 || src.k != Val::PTR || src.reg < 0) {
    ByteCell any; any.cs.set(); any.prov = P_OTHER;
    eraseScalars(D, dlo, dhi + nhi);
    D.joinRange(dlo, dhi + std::min(nhi, (i128)1 << 40), any);
    return;
  }
  Region &RS = S.regions[src.reg];
  i128 slo, shi; offsetBounds(S, src, slo, shi);
  if (!CFG.traceRegions.empty()) {
    // a copy out of a traced region is an echo, not a use: recorded as an event so that later reads of the destination can be mapped back
    if (RS.traced) traceEvent("{\"k\":\"copy\",\"fn\":\"" + std::string(I->getFunction()->getName()) + "\",\"line\":" + std::to_string(lineOf(I)) + ",\"src\":\"" + RS.name + "\",\"soff\":" + rangeJ(slo, shi) +
                             ",\"dst\":\"" + RD.name + "\",\"doff\":" + rangeJ(dlo, dhi) + ",\"len\":" + rangeJ(nlo, nhi) + ",\"root\":" + std::to_string(n.root) + ",\"rk\":" + i128s(n.rk) + "}");
  }
  std::map<int64_t, std::pair<unsigned, Val>> movedScalars;
  if (dlo == dhi && slo == shi && nhi <= 65536) {
    // strong for the first nlo bytes, weak for the rest
    std::vector<ByteCell> tmp;
    for (i128 i = 0; i < nhi; i++) tmp.push_back(readByte(S, RS, slo + i));
    if (!RS.gv) for (auto &kv : RS.rd().scalars) if (kv.first >= slo && kv.first + kv.second.first <= slo + nlo) movedScalars[(int64_t)(kv.first - slo + dlo)] = kv.second;
    eraseScalars(D, dlo, dlo + nhi);
    for (i128 i = 0; i < nhi; i++) { if (i < nlo) D.setStrong(dlo + i, tmp[(size_t)i]); else D.join(dlo + i, tmp[(size_t)i]); }
    for (auto &kv : movedScalars) D.scalars[kv.first] = kv.second;
  } else {
    ByteCell sum = summarise(S, RS, slo, shi + std::min(nhi, (i128)1 << 40));
    eraseScalars(D, dlo, dhi + nhi);
    D.joinRange(dlo, dhi + std::min(nhi, (i128)1 << 40), sum);
  }
}

inline void doSet(State &S, const Val &dst, const Val &c, Val n, const Instruction *I, const char *what) {
  tighten(S, n);
  if (n.k != Val::INT) { alarm(S, "W", I, std::string(what) + ": length is not an integer"); return; }
  i128 nlo = n.r.isFullSet() ? 0 : (i128)n.r.getUnsignedMin().getZExtValue();
  i128 nhi = n.r.isFullSet() ? ((i128)1 << 62) : (i128)n.r.getUnsignedMax().getZExtValue();
  if (nhi == 0) return;
  if (!checkAccess(S, dst, nlo, nhi, true, I, what, n.root, n.rk, n.croot, n.ck)) return;
  Region &RD = S.regions[dst.reg];
  ensureTracked(S, RD);
  RegionData &D = RD.w();
  i128 dlo, dhi; offsetBounds(S, dst, dlo, dhi);
  if (n.croot >= 0 && dst.root == n.croot) { i128 end = dst.rk + n.ck; if (dhi + nhi > end) nhi = std::max((i128)0, end - dlo); if (nlo > nhi) nlo = nhi; }
  Val c8 = c; if (c8.k == Val::INT && c8.w > 8) { int nc; c8 = castop(S, Instruction::Trunc, c8, 8, Type::getInt8Ty(M->getContext())); (void)nc; }
  ByteCell cell = cellOfVal(c8, 0);
  { bool isNul = cell.cs.count() == 1 && cell.cs[0] && nlo >= 1;
    // a fill at an exact address initialises its certain part only: [dlo, dlo+nlo), or up to a length linked to a root
    bool exactDst = dlo == dhi;
    if (isNul) D.noteWrite(dlo, dhi + 1, true, !exactDst); else D.noteWrite(dlo, dhi + std::min(nhi, (i128)1 << 40), false, !exactDst);
    if (exactDst) { D.addWritten(dlo, dlo + std::min(nlo, (i128)1 << 40)); if (n.root >= 0 && nlo != nhi) D.addWrittenLinked(dlo, n.root, n.rk); }
    else D.addWritten(dlo, dhi + std::min(nhi, (i128)1 << 40)); }
  eraseScalars(D, dlo, dhi + nhi);
  i128 cap = (i128)1 << 40;
  if (dlo == dhi) { D.fillRange(dlo, dlo + std::min(nlo, cap), cell); if (nhi > nlo) D.joinRange(dlo + nlo, dlo + std::min(nhi, cap), cell); }
  else D.joinRange(dlo, dhi + std::min(nhi, cap), cell);
  i128 slo, shi; regionSize(S, RD, slo, shi);
  if (dlo == dhi && dlo <= (i128)D.bytes.size() && dlo + nlo >= shi) { D.rest = cell; D.sparse.clear(); }   // covers the remainder completely
}

// abstract strlen starting at p: [lo,hi]; hi = -1 means unbounded/unknown
inline void absStrlen(State &S, const Val &p, i128 &lo, i128 &hi) {
  lo = 0; hi = -1;
  if (p.k != Val::PTR || p.reg < 0) return;
  const Region &R = S.regions[p.reg];
  i128 olo, ohi; offsetBounds(S, p, olo, ohi);
  if (olo != ohi) return;
  i128 slo, shi; regionSize(S, R, slo, shi);
  bool first = true;
  i128 lim = R.gv ? shi : R.rd().scanLimit();
  for (i128 o = olo; o < lim; o++) {
    ByteCell c = readByte(S, R, o);
    if (c.cs[0]) {
      if (first) { lo = o - olo; first = false; }
      if (c.cs.count() == 1) { hi = o - olo; return; }
    }
  }
  if (first) lo = lim - olo;
  if (!R.gv) { int64_t ml = -1; int64_t mh = R.rd().nulAfter(olo, &ml); if (mh >= 0) { hi = mh - olo; if (lo > hi) lo = hi; if (first && ml - olo < lo) lo = std::max((i128)0, (i128)ml - olo); } }
}
