// xai_models.h - models of libc functions and contracts
#pragma once
#include "xai_memops.h"

void finishCall(State &S, const CallBase *CB, const Val &ret);
Val getVal(State &S, const Value *V);

inline uint8_t provByName(const std::string &s) {
  if (s == "digest") return P_DIGEST; if (s == "rbytes") return P_RBYTES; if (s == "setting") return P_SETTING;
  if (s == "phrase") return P_PHRASE; if (s == "const") return P_CONST; return P_OTHER;
}

inline void writeCells(State &S, const Val &dst, const std::vector<ByteCell> &cells, i128 nStrong, i128 nMax, const Instruction *I, const char *what) {
  // writes cells[0..nMax) at dst; the first nStrong definitely, the rest possibly
  if (nMax <= 0) return;
  if (!checkAccess(S, dst, nStrong, nMax, true, I, what)) return;
  Region &R = S.regions[dst.reg];
  ensureTracked(S, R);
  RegionData &D = R.w();
  i128 dlo, dhi; offsetBounds(S, dst, dlo, dhi);
  eraseScalars(D, dlo, dhi + nMax);
  D.noteWrite(dlo, dhi + nMax, false);
  { // a definite NUL cell inside the strongly written part (or the possible terminator positions of a truncating write)
    i128 firstNul = -1, lastNul = -1;
    for (i128 i = 0; i < nMax; i++) if (cells[(size_t)i].cs[0]) { if (firstNul < 0) firstNul = i; lastNul = i; }
    bool definite = lastNul >= 0 && (cells[(size_t)lastNul].cs.count() == 1) && lastNul < nMax;
    if (definite && lastNul == nMax - 1) D.noteWrite(dlo + firstNul, dhi + lastNul + 1, true); }
  for (i128 i = 0; i < nMax; i++) {
    const ByteCell &c = cells[(size_t)i];
    if (dlo == dhi) { if (i < nStrong) D.setStrong(dlo + i, c); else D.join(dlo + i, c); }
    else D.joinRange(dlo + i, dhi + i + 1, c);
  }
}

inline ByteCell constCell(uint8_t b, uint8_t prov = P_CONST) { ByteCell c; c.cs.reset(); c.cs.set(b); c.prov = prov; return c; }

inline int ndigits(unsigned __int128 v) { int d = 1; while (v >= 10) { v /= 10; d++; } return d; }

struct FmtAlt { std::vector<ByteCell> bytes; std::vector<std::tuple<int, i128, i128>> refine;
                std::vector<std::tuple<const Value *, i128, i128>> vrefine; bool bad = false; };

// returns false when the format cannot be modelled
inline bool expandFormat(State &S, const CallBase *CB, const std::string &fmt, unsigned firstArg, std::vector<FmtAlt> &alts, std::string &why) {
  alts.clear(); alts.emplace_back();
  unsigned ai = firstArg;
  for (size_t i = 0; i < fmt.size(); i++) {
    if (fmt[i] != '%') { for (auto &a : alts) a.bytes.push_back(constCell((uint8_t)fmt[i])); continue; }
    i++;
    if (i >= fmt.size()) { why = "dangling %"; return false; }
    if (fmt[i] == '%') { for (auto &a : alts) a.bytes.push_back(constCell('%')); continue; }
    bool star = false;
    if (fmt[i] == '.' && i + 1 < fmt.size() && fmt[i + 1] == '*') { star = true; i += 2; }
    while (i < fmt.size() && (fmt[i] == 'l' || fmt[i] == 'z' || fmt[i] == 'h')) i++;
    char cv = fmt[i];
    if (cv == 'c') {
      Val v = getVal(S, CB->getArgOperand(ai++));
      Val v8 = v.k == Val::INT && v.w > 8 ? castop(S, Instruction::Trunc, v, 8, nullptr) : v;
      ByteCell c = cellOfVal(v8, 0);
      for (auto &a : alts) a.bytes.push_back(c);
    } else if (cv == 'u' || cv == 'd') {
      Val v = getVal(S, CB->getArgOperand(ai++));
      tighten(S, v);
      if (v.k != Val::INT) { why = "integer directive with non-integer argument"; return false; }
      if (cv == 'd' && !v.r.isEmptySet() && (v.r.isFullSet() || v.r.getSignedMin().isNegative())) { why = "%d of a possibly negative value"; return false; }
      unsigned __int128 lo = v.r.isFullSet() ? 0 : (unsigned __int128)v.r.getUnsignedMin().getZExtValue();
      unsigned __int128 hi = v.r.isFullSet() ? (unsigned __int128)APInt::getMaxValue(v.w).getZExtValue() : (unsigned __int128)v.r.getUnsignedMax().getZExtValue();
      if (v.r.isWrappedSet()) { lo = 0; hi = (unsigned __int128)APInt::getMaxValue(v.w).getZExtValue(); }
      std::vector<FmtAlt> out;
      addEvent(S, "{\"k\":\"fmtint\",\"fn\":\"" + std::string(CB->getFunction()->getName()) + "\",\"line\":" + std::to_string(lineOf(CB)) +
                         ",\"lo\":\"" + i128s((i128)lo) + "\",\"hi\":\"" + i128s((i128)hi) + "\",\"prov\":" + std::to_string(v.prov) + "}");
      for (int d = ndigits(lo); d <= ndigits(hi); d++) {
        unsigned __int128 p10 = 1; for (int k = 1; k < d; k++) p10 *= 10;
        unsigned __int128 dlo = std::max(lo, d == 1 ? (unsigned __int128)0 : p10), dhi = std::min(hi, p10 * 10 - 1);
        if (dlo > dhi) continue;
        for (auto a : alts) {
          if (dlo == dhi) { std::string s = i128s((i128)dlo); for (char ch : s) a.bytes.push_back(constCell((uint8_t)ch, v.prov)); }
          else for (int k = 0; k < d; k++) { ByteCell c; c.cs.reset(); for (char ch = (k == 0 && d > 1) ? '1' : '0'; ch <= '9'; ch++) c.cs.set((uint8_t)ch); c.prov = v.prov; a.bytes.push_back(c); }
          if (v.root >= 0 && ndigits(lo) != ndigits(hi)) a.refine.emplace_back(v.root, (i128)dlo - v.rk, (i128)dhi - v.rk);
          if (ndigits(lo) != ndigits(hi) && !isa<Constant>(CB->getArgOperand(ai - 1))) a.vrefine.emplace_back(CB->getArgOperand(ai - 1), (i128)dlo, (i128)dhi);
          out.push_back(a);
        }
      }
      alts.swap(out);
    } else if (cv == 's') {
      i128 plo = -1, phi = -1;
      const Value *precV = nullptr;
      if (star) {
        precV = CB->getArgOperand(ai);
        Val pv = getVal(S, CB->getArgOperand(ai++)); tighten(S, pv);
        if (pv.k != Val::INT) { why = "%.*s with non-integer precision"; return false; }
        if (pv.r.isFullSet() || pv.r.getSignedMin().isNegative()) { plo = 0; phi = (i128)1 << 31; }    // negative precision = no precision
        else { plo = pv.r.getSignedMin().getSExtValue(); phi = pv.r.getSignedMax().getSExtValue(); }
      }
      Val sv = getVal(S, CB->getArgOperand(ai++));
      if (sv.k != Val::PTR || sv.reg < 0) { why = "%s of an untracked pointer"; return false; }
      i128 slo, shi; absStrlen(S, sv, slo, shi);
      i128 lo = slo, hi = shi;
      if (star) { lo = std::min(slo, plo); hi = shi < 0 ? phi : std::min(shi, phi); if (lo > hi) lo = hi; if (slo >= phi) lo = hi = phi; else if (shi >= 0 && shi <= plo) { lo = slo; hi = shi; } }
      if (hi < 0 || hi - lo > 600) {
        // a component of practically unbounded length: the result length is unbounded as well
        why = "WIDE";
        return false;
      }
      const Region &R = S.regions[sv.reg];
      i128 olo, ohi; offsetBounds(S, sv, olo, ohi);
      if (R.traced) markRead(S, sv.reg, olo, ohi + hi);     // formatted into the destination: counted as a use
      std::vector<FmtAlt> out;
      for (i128 L = lo; L <= hi; L++)
        for (auto a : alts) {
          for (i128 k = 0; k < L; k++) { ByteCell c = readByte(S, R, olo + k); c.cs.reset(0); if (c.cs.none()) { a.bad = true; } a.bytes.push_back(c); }
          // when the precision decides the length, pin the precision value in this alternative
          if (star && precV && !isa<Constant>(precV) && lo != hi && (shi < 0 || phi <= slo)) a.vrefine.emplace_back(precV, L, L);
          if (!a.bad) out.push_back(a);
        }
      if (out.empty()) { why = "%s: no feasible length"; return false; }
      alts.swap(out);
    } else { why = std::string("unsupported conversion %") + cv; return false; }
    if (alts.size() > 4096) { why = "format expansion too large"; return false; }
  }
  return true;
}

inline std::string globalCString(State &S, const Val &p, bool &ok) {
  ok = false;
  if (p.k != Val::PTR || p.reg < 0) return "";
  const Region &R = S.regions[p.reg];
  if (!R.gv || !R.gv->isConstant() || !R.gv->hasInitializer()) return "";
  i128 lo, hi; offsetBounds(S, p, lo, hi);
  if (lo != hi) return "";
  std::string s;
  for (i128 o = lo;; o++) {
    ByteCell c = readByte(S, R, o);
    if (c.cs.count() != 1) return "";
    int b = 0; for (int i = 0; i < 256; i++) if (c.cs[i]) b = i;
    if (!b) break;
    s.push_back((char)b);
    if (s.size() > 4096) return "";
  }
  ok = true;
  return s;
}

// returns true if handled. May push forked states.
bool modelCall(State &S, const CallBase *CB, const std::string &name, std::vector<State> &forks);
