// xai_ops.h - transfer functions on abstract values
#pragma once
#include "xai_state.h"

inline Val mkInt(unsigned w, ConstantRange r, KnownBits kb, uint8_t prov) {
  Val v; v.k = Val::INT; v.w = w; v.prov = prov;
  // combine range and known bits
  ConstantRange fromkb = ConstantRange::fromKnownBits(kb, false);
  ConstantRange x = r.intersectWith(fromkb);
  if (x.isEmptySet() && !r.isEmptySet()) x = r;
  v.r = x;
  KnownBits k2 = rangeKB(x);
  if (!kb.hasConflict()) { k2.One |= kb.One; k2.Zero |= kb.Zero; if (k2.hasConflict()) k2 = rangeKB(x); }
  v.kb = k2;
  if (v.r.isSingleElement() && v.r.getSingleElement()->ule(255)) { v.hascs = true; v.cs.set((size_t)v.r.getSingleElement()->getZExtValue()); }
  return v;
}

inline void csToRange(Val &v) { if (v.hascs) { Val t = v; t.fromcs(); v.r = v.r.intersectWith(t.r).isEmptySet() ? t.r : v.r.intersectWith(t.r); v.kb = t.kb; } }

// result: value; needConcr: root index that should be concretised before retrying (or -1)
inline Val binop(State &S, unsigned opc, Val a, Val b, int &needConcr) {
  needConcr = -1;
  if (a.k == Val::PTR || b.k == Val::PTR) {
    // pointer arithmetic on ptrtoint'ed values: ptr +/- int
    if (a.k == Val::PTR && b.k == Val::INT && (opc == Instruction::Add || opc == Instruction::Sub)) {
      Val r = a;
      r.kb = KnownBits(64);
      ConstantRange br = b.r.sextOrTrunc(64);
      r.r = opc == Instruction::Add ? a.r.add(br) : a.r.sub(br);
      r.root = -1;
      if (b.isConst()) {
        if (a.root >= 0) { r.root = a.root; r.rk = a.rk + (opc == Instruction::Add ? 1 : -1) * ap2i(b.constVal(), true); }
      } else if (b.root >= 0 && a.r.isSingleElement() && opc == Instruction::Add) {
        r.root = b.root; r.rk = b.rk + a.r.getSingleElement()->getSExtValue();
      }
      r.prov |= b.prov;
      return r;
    }
    if (a.k == Val::PTR && b.k == Val::PTR && opc == Instruction::Sub && a.reg == b.reg) {
      Val r = Val::range(64, a.r.sub(b.r), a.prov | b.prov);
      if (a.root >= 0 && b.root < 0 && b.r.isSingleElement()) { r.root = a.root; r.rk = a.rk - b.r.getSingleElement()->getSExtValue(); }
      if (a.root >= 0 && b.root == a.root) { i128 d = a.rk - b.rk; r = Val::capint(APInt(64, (uint64_t)d, true)); }
      return r;
    }
    if (a.k == Val::PTR && b.k == Val::INT && opc == Instruction::And) {
      // alignment masks: (p + a-1) & ~(a-1)
      Val r = a;
      r.kb = KnownBits(64);
      if (b.isConst() && a.reg >= 0) {
        APInt m = b.constVal().sextOrTrunc(64);
        unsigned tz = (~m).countTrailingOnes();
        if ((~m).isMask(tz) && tz <= 6) {
          const Region &R = S.regions[a.reg];
          if (R.alignRoot >= 0 && a.r.isSingleElement()) {
            const Root &AR = S.roots[R.alignRoot];
            if (AR.lo != AR.hi) { needConcr = R.alignRoot; return Val::unk(); }
            int64_t mis = (int64_t)AR.lo, off = a.r.getSingleElement()->getSExtValue();
            int64_t al = ((mis + off) & ~((1LL << tz) - 1)) - mis;
            return Val::ptr(a.reg, al);
          }
          // base alignment unknown: result offset in [off - (2^tz - 1), off]
          r.r = ConstantRange::getNonEmpty(a.r.getLower() - APInt(64, (1u << tz) - 1), a.r.getUpper());
          r.root = -1;
          return r;
        }
        // low-bit extraction (p & 63): value of the low bits of the address
        if (m.isMask() && m.getActiveBits() <= 6 && S.regions[a.reg].alignRoot >= 0 && a.r.isSingleElement()) {
          const Root &AR = S.roots[S.regions[a.reg].alignRoot];
          if (AR.lo != AR.hi) { needConcr = S.regions[a.reg].alignRoot; return Val::unk(); }
          int64_t v = ((int64_t)AR.lo + a.r.getSingleElement()->getSExtValue()) & (int64_t)m.getZExtValue();
          return Val::cint(64, (uint64_t)v);
        }
      }
      return b.k == Val::INT && b.isConst() && b.constVal().isMask() ? Val::range(64, ConstantRange::getNonEmpty(APInt(64, 0), b.constVal().zextOrTrunc(64) + 1), P_OTHER) : Val::unk();
    }
    return Val::unk();
  }
  if (a.k != Val::INT || b.k != Val::INT) return Val::top(a.k == Val::INT ? a.w : (b.k == Val::INT ? b.w : 64), P_OTHER);
  unsigned w = a.w;
  uint8_t prov = a.prov | b.prov;
  // linkage-preserving ops
  if ((opc == Instruction::Add || opc == Instruction::Sub) && b.isConst() && a.root >= 0) {
    i128 c = ap2i(b.constVal(), !S.roots[a.root].isUnsigned || b.constVal().isNegative());
    if (S.roots[a.root].isUnsigned && opc == Instruction::Add && b.constVal().isNegative() && w == 64) c = (i128)b.constVal().getSExtValue();
    i128 k = a.rk + (opc == Instruction::Add ? c : -c);
    if (linkFits(S, a.root, k, w)) {
      Val r = Val::top(w, prov); r.root = a.root; r.rk = k; tighten(S, r);
      return r;
    }
  }
  if (opc == Instruction::Add && a.isConst() && b.root >= 0) {
    i128 k = b.rk + ap2i(a.constVal(), !S.roots[b.root].isUnsigned);
    if (linkFits(S, b.root, k, w)) { Val r = Val::top(w, prov); r.root = b.root; r.rk = k; tighten(S, r); return r; }
  }
  if (opc == Instruction::Sub && a.isConst() && b.root >= 0 && !b.isConst()) {
    // c - (root + k)  ==  (c - k) - root
    csToRange(a); 
    Val r = mkInt(w, a.r.sub(b.r), KnownBits(w), prov);
    r.croot = b.root; r.ck = ap2i(a.constVal(), false) - b.rk;
    return r;
  }
  if ((opc == Instruction::Add || opc == Instruction::Sub) && b.isConst() && a.croot >= 0) {
    Val r = mkInt(w, opc == Instruction::Add ? a.r.add(b.r) : a.r.sub(b.r), KnownBits(w), prov);
    i128 c = ap2i(b.constVal(), b.constVal().isNegative() && w == 64 ? true : false);
    r.croot = a.croot; r.ck = a.ck + (opc == Instruction::Add ? c : -c);
    return r;
  }
  // concretise small linked operands for non-linear ops
  bool nonlinear = !(opc == Instruction::Add || opc == Instruction::Sub);
  if (nonlinear) {
    for (const Val *x : {&a, &b})
      if (x->root >= 0 && !x->isConst()) {
        const Root &R = S.roots[x->root];
        if (R.hi - R.lo < CFG.concrMax && R.hi > R.lo) { needConcr = x->root; return Val::unk(); }
      }
  }
  csToRange(a); csToRange(b);
  ConstantRange r = ConstantRange::getFull(w);
  KnownBits kb(w);
  switch (opc) {
  case Instruction::Add: r = a.r.add(b.r); kb = KnownBits::computeForAddSub(true, false, a.kb, b.kb); break;
  case Instruction::Sub: r = a.r.sub(b.r); kb = KnownBits::computeForAddSub(false, false, a.kb, b.kb); break;
  case Instruction::Mul: r = a.r.multiply(b.r); kb = KnownBits::mul(a.kb, b.kb); break;
  case Instruction::UDiv: if (!b.r.contains(APInt(w, 0)) || true) { r = a.r.udiv(b.r); kb = KnownBits::udiv(a.kb, b.kb); } break;
  case Instruction::URem: r = a.r.urem(b.r); kb = KnownBits::urem(a.kb, b.kb); break;
  case Instruction::SDiv: r = a.r.sdiv(b.r); break;
  case Instruction::SRem: r = a.r.srem(b.r); kb = KnownBits::srem(a.kb, b.kb); break;
  case Instruction::Shl: r = a.r.shl(b.r); kb = KnownBits::shl(a.kb, b.kb); break;
  case Instruction::LShr: r = a.r.lshr(b.r); kb = KnownBits::lshr(a.kb, b.kb); break;
  case Instruction::AShr: r = a.r.ashr(b.r); kb = KnownBits::ashr(a.kb, b.kb); break;
  case Instruction::And: r = a.r.binaryAnd(b.r); kb = a.kb & b.kb; break;
  case Instruction::Or: r = a.r.binaryOr(b.r); kb = a.kb | b.kb; break;
  case Instruction::Xor: r = a.r.binaryXor(b.r); kb = a.kb ^ b.kb; break;
  default: break;
  }
  if (kb.hasConflict()) kb = KnownBits(w);
  Val v = mkInt(w, r, kb, prov);
  // small exact sets: and/or/xor/add of a charset with a constant stays a charset
  if (!v.hascs && a.hascs && b.isConst() && (opc == Instruction::And || opc == Instruction::Or || opc == Instruction::Xor || opc == Instruction::Add || opc == Instruction::Sub || opc == Instruction::LShr)) {
    std::bitset<256> cs; bool ok = true;
    uint64_t c = b.constVal().getZExtValue();
    uint64_t mask = w >= 64 ? ~0ULL : ((1ULL << w) - 1);
    for (int i = 0; i < 256 && ok; i++) if (a.cs[i]) {
      uint64_t x = i, y = 0;
      switch (opc) {
      case Instruction::And: y = x & c; break; case Instruction::Or: y = x | c; break; case Instruction::Xor: y = x ^ c; break;
      case Instruction::Add: y = (x + c) & mask; break; case Instruction::Sub: y = (x - c) & mask; break;
      case Instruction::LShr: y = c < 64 ? x >> c : 0; break;
      }
      if (y > 255) ok = false; else cs.set((size_t)y);
    }
    if (ok) { v.hascs = true; v.cs = cs; Val t = v; t.fromcs(); v.r = t.r; v.kb = t.kb; }
  }
  return v;
}

inline Val castop(State &S, unsigned opc, const Val &a, unsigned dw, Type *dty) {
  if (opc == Instruction::BitCast || opc == Instruction::AddrSpaceCast) return a;
  if (opc == Instruction::PtrToInt) return a;         // keep pointer identity; arithmetic handled in binop
  if (opc == Instruction::IntToPtr) return a.k == Val::PTR ? a : Val::unk();
  if (a.k == Val::PTR) return a;                      // trunc/zext of a ptrtoint'ed pointer: keep (only alignment tests use it)
  if (a.k != Val::INT) return dty->isIntegerTy() ? Val::top(dw, P_OTHER) : Val::unk();
  Val v; v.k = Val::INT; v.w = dw; v.prov = a.prov;
  switch (opc) {
  case Instruction::ZExt: v.r = a.r.zeroExtend(dw); v.kb = a.kb.zext(dw); break;
  case Instruction::SExt: v.r = a.r.signExtend(dw); v.kb = a.kb.sext(dw); break;
  case Instruction::Trunc: v.r = a.r.truncate(dw); v.kb = a.kb.trunc(dw); break;
  default: return Val::top(dw, a.prov);
  }
  if (a.hascs) {
    if (opc == Instruction::ZExt || (opc == Instruction::Trunc && dw >= 8)) { v.hascs = true; v.cs = a.cs; }
    else if (opc == Instruction::SExt && a.w == 8) {
      bool hi = false; for (int i = 128; i < 256; i++) if (a.cs[i]) hi = true;
      if (!hi) { v.hascs = true; v.cs = a.cs; }
    } else if (opc == Instruction::SExt) { v.hascs = true; v.cs = a.cs; }
    else if (opc == Instruction::Trunc) {
      std::bitset<256> cs; for (int i = 0; i < 256; i++) if (a.cs[i]) cs.set(i & ((1 << dw) - 1));
      v.hascs = true; v.cs = cs;
    }
  }
  if (v.r.isSingleElement() && v.r.getSingleElement()->ule(255)) { v.hascs = true; v.cs.reset(); v.cs.set((size_t)v.r.getSingleElement()->getZExtValue()); }
  if (a.root >= 0) {
    const Root &R = S.roots[a.root];
    bool keep = false;
    if (opc == Instruction::ZExt) keep = R.isUnsigned || (R.lo + a.rk >= 0);
    else if (opc == Instruction::SExt) keep = !R.isUnsigned || (R.hi + a.rk < ((i128)1 << (a.w - 1)));
    else if (opc == Instruction::Trunc) keep = true;
    if (keep && linkFits(S, a.root, a.rk, dw)) { v.root = a.root; v.rk = a.rk; tighten(S, v); }
  }
  return v;
}

// Evaluate icmp: returns 1 true, 0 false, -1 unknown
inline int icmpEval(State &S, CmpInst::Predicate p, Val a, Val b) {
  if (a.k == Val::PTR || b.k == Val::PTR) {
    // null tests
    auto isNullC = [](const Val &v) { return (v.k == Val::PTR && v.reg < 0 && !v.maybenull) || (v.k == Val::INT && v.isConst() && v.constVal().isZero()); };
    if (a.k == Val::PTR && isNullC(b) && (p == CmpInst::ICMP_EQ || p == CmpInst::ICMP_NE)) {
      if (a.reg < 0) return p == CmpInst::ICMP_EQ;
      if (!a.maybenull) return p == CmpInst::ICMP_NE;
      return -1;
    }
    if (b.k == Val::PTR && isNullC(a) && (p == CmpInst::ICMP_EQ || p == CmpInst::ICMP_NE)) return icmpEval(S, p, b, a);
    if (a.k == Val::PTR && b.k == Val::PTR) {
      if (a.reg != b.reg) { if (p == CmpInst::ICMP_EQ) return 0; if (p == CmpInst::ICMP_NE) return 1; return -1; }
      if (a.root >= 0 && a.root == b.root) {
        APInt x(64, (uint64_t)a.rk, true), y(64, (uint64_t)b.rk, true);
        return ICmpInst::compare(x, y, CmpInst::isUnsigned(p) ? CmpInst::getSignedPredicate(p) : p);
      }
      Val ia = Val::range(64, a.r), ib = Val::range(64, b.r);
      ia.root = a.root; ia.rk = a.rk; ib.root = b.root; ib.rk = b.rk;
      // offsets are small non-negative numbers: compare as signed
      return icmpEval(S, CmpInst::isUnsigned(p) ? CmpInst::getSignedPredicate(p) : p, ia, ib);
    }
    return -1;
  }
  if (a.k != Val::INT || b.k != Val::INT) return -1;
  if (a.root >= 0 && a.root == b.root && (CmpInst::isEquality(p) || CmpInst::isSigned(p) != S.roots[a.root].isUnsigned)) {
    APInt x(128, 0), y(128, 0);
    i128 d = a.rk - b.rk;
    bool lt = d < 0, eq = d == 0;
    switch (p) {
    case CmpInst::ICMP_EQ: return eq; case CmpInst::ICMP_NE: return !eq;
    case CmpInst::ICMP_ULT: case CmpInst::ICMP_SLT: return lt;
    case CmpInst::ICMP_ULE: case CmpInst::ICMP_SLE: return lt || eq;
    case CmpInst::ICMP_UGT: case CmpInst::ICMP_SGT: return !lt && !eq;
    case CmpInst::ICMP_UGE: case CmpInst::ICMP_SGE: return !lt;
    default: break;
    }
  }
  if (a.hascs && b.isConst() && CmpInst::isEquality(p)) {
    uint64_t c = b.constVal().getZExtValue();
    bool in = c < 256 && a.cs[(size_t)c];
    if (!in) return p == CmpInst::ICMP_NE;
    if (a.cs.count() == 1) return p == CmpInst::ICMP_EQ;
    return -1;
  }
  csToRange(a); csToRange(b);
  if (a.r.isEmptySet() || b.r.isEmptySet()) return -1;
  if (a.r.icmp(p, b.r)) return 1;
  if (a.r.icmp(CmpInst::getInversePredicate(p), b.r)) return 0;
  return -1;
}

// Refine `a` under the assumption (a p b). Returns false if infeasible.
inline bool refineOne(State &S, CmpInst::Predicate p, Val &a, const Val &b0) {
  if (a.k != Val::INT || b0.k != Val::INT) return true;
  Val b = b0; csToRange(b);
  if (a.hascs && b.isConst() && CmpInst::isEquality(p)) {
    uint64_t c = b.constVal().getZExtValue();
    if (p == CmpInst::ICMP_EQ) { bool in = c < 256 && a.cs[(size_t)c]; a.cs.reset(); if (in) a.cs.set((size_t)c); }
    else if (c < 256) a.cs.reset((size_t)c);
    if (a.cs.none()) return false;
    Val t = a; t.fromcs(); a.r = t.r; a.kb = t.kb;
  } else {
    ConstantRange allowed = ConstantRange::makeAllowedICmpRegion(p, b.r);
    ConstantRange x = a.r.intersectWith(allowed);
    if (a.hascs) {
      for (int i = 0; i < 256; i++) if (a.cs[i] && !allowed.contains(APInt(a.w, i))) a.cs.reset(i);
      if (a.cs.none()) return false;
      Val t = a; t.fromcs(); x = t.r;
    }
    if (x.isEmptySet()) return false;
    a.r = x; a.kb = rangeKB(x);
  }
  // push to the root
  if (a.root >= 0) {
    Root &R = S.roots[a.root];
    bool okpred = CmpInst::isEquality(p) || (CmpInst::isSigned(p) != R.isUnsigned);
    i128 lo, hi;
    if (!okpred) {
      // mixed signedness: fine if both sides are non-negative and small
      i128 wl, wh; linkWindow(R, a.w, wl, wh);
      if (R.lo + a.rk >= 0 && R.hi + a.rk < ((i128)1 << (a.w - 1)) && !b.r.isEmptySet() && b.r.getUnsignedMax().isNonNegative()) okpred = true;
      else if (!R.isUnsigned && CmpInst::isUnsigned(p) && !b.r.isEmptySet() && b.r.getUnsignedMax().isNonNegative()
               && (p == CmpInst::ICMP_ULT || p == CmpInst::ICMP_ULE)) {
        // (unsigned)x < small  ==> 0 <= x < small
        i128 bound = (i128)b.r.getUnsignedMax().getZExtValue() - (p == CmpInst::ICMP_ULT ? 1 : 0);
        R.lo = std::max(R.lo, (i128)0 - a.rk); R.hi = std::min(R.hi, bound - a.rk);
        if (R.lo > R.hi) return false;
        tighten(S, a);
        return true;
      }
    }
    if (okpred && !b.r.isEmptySet()) {
      bool sg = !R.isUnsigned;
      i128 bmin = sg ? (i128)b.r.getSignedMin().getSExtValue() : (i128)b.r.getUnsignedMin().getZExtValue();
      i128 bmax = sg ? (i128)b.r.getSignedMax().getSExtValue() : (i128)b.r.getUnsignedMax().getZExtValue();
      if (b.w > 64) { bmin = R.lo + a.rk; bmax = R.hi + a.rk; }
      lo = R.lo + a.rk; hi = R.hi + a.rk;
      switch (p) {
      case CmpInst::ICMP_EQ: lo = std::max(lo, bmin); hi = std::min(hi, bmax); break;
      case CmpInst::ICMP_NE: if (bmin == bmax) { if (lo == bmin) lo++; if (hi == bmin) hi--; } break;
      case CmpInst::ICMP_ULT: case CmpInst::ICMP_SLT: hi = std::min(hi, bmax - 1); break;
      case CmpInst::ICMP_ULE: case CmpInst::ICMP_SLE: hi = std::min(hi, bmax); break;
      case CmpInst::ICMP_UGT: case CmpInst::ICMP_SGT: lo = std::max(lo, bmin + 1); break;
      case CmpInst::ICMP_UGE: case CmpInst::ICMP_SGE: lo = std::max(lo, bmin); break;
      default: break;
      }
      if (lo > hi) return false;
      R.lo = lo - a.rk; R.hi = hi - a.rk;
      tighten(S, a);
    }
  }
  return !a.r.isEmptySet();
}
