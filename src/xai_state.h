// xai_state.h - interpreter state, configuration, helpers for roots and linkage
#pragma once
#include "xai_mem.h"
#include "llvm/ADT/DenseMap.h"
#include "llvm/IR/Instructions.h"
#include "llvm/IR/Module.h"
#include "llvm/Support/JSON.h"
#include <set>

struct Frame {
  Function *F = nullptr;
  DenseMap<const Value *, Val> regs;
  BasicBlock *bb = nullptr, *prev = nullptr;
  BasicBlock::iterator it;
  const CallBase *callsite = nullptr;
  std::vector<int> allocas;
  std::map<const BasicBlock *, int> visits;
  std::map<const Value *, unsigned> ver;            // definition counter per SSA value (re-execution in loops)
  std::map<std::tuple<unsigned, const Value *, const Value *>, std::tuple<const Value *, unsigned, unsigned, unsigned>> cse;   // (opc,a,b) -> (inst, ver a, ver b, ver inst)
  std::map<const BasicBlock *, int64_t> loopEntryForks;   // header -> S.nforks when the loop was entered from outside
  std::map<const BasicBlock *, int64_t> loopEntry;   // header -> S.steps when the loop was entered from outside
  std::map<const BasicBlock *, int> forks;          // how often the terminator of this block was undecided
  std::map<const BasicBlock *, std::pair<std::vector<Val>, uint64_t>> snaps;   // header -> (phi values, memory hash) at last widened arrival
};

struct Alarm { std::string kind, fn, msg; unsigned line = 0; };

struct Effect {            // contract effect
  std::string op;          // read | write | writeobj | ret
  int ptr = -1, len = -1;  // argument indices
  int64_t size = -1;       // constant size (write) ; for ret: unused
  int64_t off = 0;         // constant byte offset added to the pointer argument
  std::string prov;        // provenance of written bytes
  int64_t retlo = 0, rethi = 0;
  int lenptr = -1;         // length = the size_t stored at this pointer argument when the call is made (upper bound)
  int hiarg = -1;          // retptr: upper offset bound = value of this integer argument
  bool mayNull = false;    // retptr: NULL is a possible result
  int64_t maxlen = -1;     // lenptr: the contract was verified up to this length only (precondition)
};

struct Config {
  std::string entry;
  std::map<std::string, std::vector<Effect>> contracts;
  std::set<std::string> abortFns{"__assert_fail", "abort"};
  int64_t track = 512;         // bytes tracked per region
  int64_t maxSteps = 4000000;  // per path
  int64_t maxPaths = 200000;   // per cell
  int64_t maxWallSec = 1800;   // per cell: wall-clock budget (the cell is then reported as budget-exhausted)
  int64_t loopFuel = 70000;
  int concrMax = 128;
  int widenAfter = 12;
  int ptrWidenAfter = 600;     // visits of a header before pointer phis are widened
  int64_t fmtForkMax = 4096;   // more snprintf length alternatives than this are merged instead of forked
  int64_t longLoopSteps = 1500000;   // interpretation steps spent inside one loop activation before widening starts
  int forkyLoop = 96;          // visits after which a loop whose body keeps forking on data is summarised
  int longLoop = 1200;         // visits of one block in one frame after which widening starts regardless of forks
  int frameForkWiden = 0;      // >0: widen at loop headers once a frame has forked more than this often
  bool trackInit = false;      // report reads of never-written bytes of stack objects and of regions marked "uninit"
  bool dedupe = false;         // cross-path state deduplication at merge blocks         // undecided iterations of one branch before widening kicks in
  std::string reportRegion;
  std::set<std::string> traceRegions;   // regions whose read offsets (loads, contract reads, copy sources) are recorded per path
  int64_t reportLimit = -1;       // track the set of byte values written below this offset of the report region
  std::string wsetResetAfter;     // reset that set when this function returns (the failure token writer)
  std::vector<FieldSpec> fields;   // field map of the data object (fieldmap id 0)
};

struct State {
  std::vector<Frame> stack;
  std::vector<Region> regions;
  std::vector<Root> roots;
  std::map<const Instruction *, int> siteRoots;   // symbolic length roots, one per call site (re-used in loops)
  std::string errnoAt;         // function:line of the last errno store
  bool errnoSet = false;
  Val errnoVal;
  std::vector<Alarm> alarms;
  uint64_t nW = 0, nR = 0, nIdx = 0, nCall = 0;
  std::vector<std::string> events;
  int64_t steps = 0;
  bool aborted = false;
  std::string abortMsg;
  int64_t nforks = 0;          // forks taken on this path so far
  int fresh = 0;               // remaining dedupe checks after the last fork
  bool dedup = false;          // path ended because an identical state was already explored
  bool wroteReport = false;   // any write into the report region since entry (besides first token)
};

extern Module *M;
extern const DataLayout *DLp;
extern Config CFG;

inline void addEvent(State &S, const std::string &e) {
  for (auto &x : S.events) if (x == e) return;
  S.events.push_back(e);
}

// read tracing is per cell, not per path (it must not keep otherwise identical states apart): the union over all explored paths
struct CellTrace { std::map<std::string, std::bitset<1024>> reads; std::set<std::string> events; };
inline CellTrace &cellTrace() { static CellTrace t; return t; }
inline void traceEvent(const std::string &e) { cellTrace().events.insert(e); }
inline void markRead(State &S, int reg, i128 lo, i128 hi) {   // [lo,hi)
  if (reg < 0 || !S.regions[reg].traced) return;
  auto &b = cellTrace().reads[S.regions[reg].name];
  if (lo < 0) lo = 0;
  if (hi > 1024) hi = 1024;
  for (i128 i = lo; i < hi; i++) b.set((size_t)i);
}
inline std::string rangeJ(i128 lo, i128 hi) { return "[" + i128s(lo) + "," + i128s(hi) + "]"; }

inline unsigned lineOf(const Instruction *I) { return I && I->getDebugLoc() ? I->getDebugLoc().getLine() : 0; }

inline void alarm(State &S, const std::string &kind, const Instruction *I, const std::string &msg) {
  Alarm a; a.kind = kind; a.msg = msg; a.line = lineOf(I);
  a.fn = I ? std::string(I->getFunction()->getName()) : std::string("?");
  for (auto &x : S.alarms) if (x.kind == a.kind && x.fn == a.fn && x.line == a.line && x.msg == a.msg) return;
  S.alarms.push_back(a);
}

// ---- linkage helpers -------------------------------------------------------
// validity window of a linked value of width w
inline void linkWindow(const Root &R, unsigned w, i128 &lo, i128 &hi) {
  if (R.isUnsigned) { lo = 0; hi = w >= 127 ? ((i128)1 << 126) : (((i128)1 << w) - 1); }
  else { lo = -((i128)1 << (w - 1)); hi = ((i128)1 << (w - 1)) - 1; }
}

inline bool linkFits(const State &S, int root, i128 k, unsigned w) {
  if (root < 0) return false;
  const Root &R = S.roots[root];
  i128 lo, hi; linkWindow(R, w, lo, hi);
  return R.lo + k >= lo && R.hi + k <= hi;
}

inline ConstantRange i128Range(unsigned w, i128 lo, i128 hi) {
  // lo..hi inclusive, assumed to fit the (signed or unsigned) window of width w
  if (lo > hi) return ConstantRange::getEmpty(w);
  APInt a(w, (uint64_t)lo, true), b(w, (uint64_t)hi, true);
  if (w > 64) { a = APInt(w, (uint64_t)lo, lo < 0); b = APInt(w, (uint64_t)hi, hi < 0); }
  APInt e = b + 1;
  if (a == e) return ConstantRange::getFull(w);
  return ConstantRange(a, e);
}

// intersect value with what its linkage says; drop link if it no longer fits
inline void tighten(const State &S, Val &v) {
  if (v.root < 0) return;
  unsigned w = v.k == Val::PTR ? 64 : v.w;
  if (!linkFits(S, v.root, v.rk, w)) { v.root = -1; return; }
  const Root &R = S.roots[v.root];
  ConstantRange lr = i128Range(w, R.lo + v.rk, R.hi + v.rk);
  ConstantRange x = v.r.intersectWith(lr);
  if (x.isEmptySet() && !v.r.isEmptySet() && !lr.isEmptySet()) x = lr;   // wrapped representation mismatch: trust the link
  v.r = x;
  if (v.k == Val::INT) { v.kb = rangeKB(v.r); v.prov |= R.prov; }
  if (v.hascs) {
    for (int i = 0; i < 256; i++) if (v.cs[i] && !v.r.contains(APInt(w, i))) v.cs.reset(i);
  }
}

inline bool rootIsPoint(const State &S, int root) { return root >= 0 && S.roots[root].lo == S.roots[root].hi; }
