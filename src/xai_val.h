// xai_val.h - abstract values of the XAI interpreter
#pragma once
#include "llvm/ADT/APInt.h"
#include "llvm/IR/ConstantRange.h"
#include "llvm/IR/Function.h"
#include "llvm/Support/KnownBits.h"
#include <array>
#include <bitset>
#include <memory>
#include <string>
#include <vector>

using namespace llvm;
typedef __int128 i128;

inline KnownBits rangeKB(const ConstantRange &r) {
  unsigned w = r.getBitWidth();
  KnownBits kb(w);
  if (r.isEmptySet() || r.isFullSet() || r.isWrappedSet()) return kb;
  APInt lo = r.getUnsignedMin(), hi = r.getUnsignedMax();
  unsigned lz = (lo ^ hi).countLeadingZeros();
  if (lz == 0) return kb;
  APInt mask = APInt::getHighBitsSet(w, lz);
  kb.One = lo & mask; kb.Zero = ~lo & mask;
  return kb;
}

enum Prov : uint8_t { P_CONST = 0, P_RBYTES = 1, P_SETTING = 2, P_DIGEST = 4, P_COUNT = 8, P_SIZE = 16, P_PHRASE = 32, P_UNINIT = 64, P_OTHER = 128 };

struct Root {
  std::string name;
  bool isUnsigned = false;
  i128 lo = 0, hi = 0;
  uint8_t prov = 0;
};

struct Val {
  enum K : uint8_t { INT, PTR, FN, UNK } k = UNK;
  unsigned w = 64;                  // INT width
  ConstantRange r = ConstantRange::getFull(64);  // INT value / PTR offset (64 bit)
  KnownBits kb = KnownBits(64);
  int root = -1;                    // linkage: value (or offset) == roots[root] + rk
  i128 rk = 0;
  int croot = -1;                   // complement linkage: value == ck - roots[croot]
  i128 ck = 0;
  bool hascs = false;               // value in [0,255] and member of cs
  std::bitset<256> cs;
  uint8_t prov = 0;
  int reg = -1;                     // PTR: region id (-1: null only)
  bool maybenull = false;           // PTR: may also be NULL
  Function *fn = nullptr;           // FN
  // byte-function linkage: this value == ByteFns[tbl].val[b] where b is the low byte of SSA value tsrc
  // (version tver, frame depth tdepth).  Created by tabulated pure calls and loads from constant byte-indexed tables.
  int tbl = -1; const Value *tsrc = nullptr; unsigned tver = 0; unsigned tdepth = 0;
  bool ambient = false;             // the caller's errno, read before this call stored to it (harmless while it is only saved and restored)

  static Val top(unsigned w, uint8_t prov = 0) {
    Val v; v.k = INT; v.w = w; v.r = ConstantRange::getFull(w); v.kb = KnownBits(w); v.prov = prov; return v;
  }
  static Val cint(unsigned w, uint64_t x) { return capint(APInt(w, x)); }
  static Val capint(const APInt &a) {
    Val v; v.k = INT; v.w = a.getBitWidth(); v.r = ConstantRange(a); v.kb = KnownBits::makeConstant(a);
    if (a.ule(255)) { v.hascs = true; v.cs.set((size_t)a.getZExtValue()); }
    return v;
  }
  static Val range(unsigned w, const ConstantRange &cr, uint8_t prov = 0) {
    Val v; v.k = INT; v.w = w; v.r = cr; v.kb = rangeKB(cr); v.prov = prov; return v;
  }
  static Val charset(unsigned w, const std::bitset<256> &cs, uint8_t prov) {
    Val v; v.k = INT; v.w = w; v.hascs = true; v.cs = cs; v.prov = prov; v.fromcs(); return v;
  }
  static Val null() { Val v; v.k = PTR; v.reg = -1; v.r = ConstantRange(APInt(64, 0)); v.kb = KnownBits(64); return v; }
  static Val ptr(int reg, int64_t off) {
    Val v; v.k = PTR; v.reg = reg; v.r = ConstantRange(APInt(64, (uint64_t)off, true)); v.kb = KnownBits(64); return v;
  }
  static Val func(Function *f) { Val v; v.k = FN; v.fn = f; return v; }
  static Val unk() { Val v; v.k = UNK; return v; }

  void fromcs() {   // recompute r from cs
    int lo = -1, hi = -1;
    for (int i = 0; i < 256; i++) if (cs[i]) { if (lo < 0) lo = i; hi = i; }
    if (lo < 0) { r = ConstantRange::getEmpty(w); kb = KnownBits(w); return; }
    if (w <= 8 && hi >= (1 << w) - 1 && lo == 0) r = ConstantRange::getFull(w);
    else r = ConstantRange::getNonEmpty(APInt(w, lo), APInt(w, (uint64_t)hi) + 1);
    if (w <= 8 && hi + 1 >= (1 << w)) {
      if (lo == 0) r = ConstantRange::getFull(w); else r = ConstantRange(APInt(w, lo), APInt(w, 0));
    }
    kb = KnownBits(w);
    // known bits from the set
    APInt ones = APInt::getAllOnes(w), zeros = APInt::getAllOnes(w);
    for (int i = 0; i < 256; i++) if (cs[i]) { APInt a(w, i); ones &= a; zeros &= ~a; }
    kb.One = ones; kb.Zero = zeros;
  }
  bool isConst() const { return k == INT && r.isSingleElement(); }
  APInt constVal() const { return *r.getSingleElement(); }
  bool isEmpty() const { return k == INT && (r.isEmptySet() || (hascs && cs.none())); }
};

struct ByteFn { std::bitset<256> dom; std::array<int64_t, 256> val; };
inline std::vector<ByteFn> &byteFns() { static std::vector<ByteFn> v; return v; }
inline int internByteFn(const ByteFn &f) {
  auto &v = byteFns();
  for (size_t i = 0; i < v.size(); i++) if (v[i].dom == f.dom && v[i].val == f.val) return (int)i;
  v.push_back(f); return (int)v.size() - 1;
}

inline i128 ap2i(const APInt &a, bool sgn) { return sgn ? (i128)a.getSExtValue() : (i128)a.getZExtValue(); }

inline std::string i128s(i128 v) {
  if (v == 0) return "0";
  bool neg = v < 0; if (neg) v = -v;
  std::string s; while (v > 0) { s.insert(s.begin(), char('0' + (int)(v % 10))); v /= 10; }
  if (neg) s.insert(s.begin(), '-');
  return s;
}
