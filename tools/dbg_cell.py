import sys, time, collections, json, os; sys.path.insert(0,'/verif')
from vlib import crypt_grid as K, xai, common
m,info=common.prog('shared')
cells,meta,rows=K.build_cells(m,'quick')
cells=[c for c in cells if c['id']==sys.argv[1]]
cfg=K.config(m)
for kv in sys.argv[2:]:
    k,v=kv.split('='); cfg[k]=json.loads(v)
t=time.time()
res=xai.run_cells(info['bc'], cells, cfg, jobs=1)
print("wall", round(time.time()-t,1))
for cid,c in res.items():
    print("==",cid,"npaths",c['npaths'],"ndedup",c.get('ndedup'),"budget",c['budget'])
    al=collections.Counter(); rets=collections.Counter()
    for p in c['paths']:
        rets[(p['ret'].split('+')[0], str(p['errno']), p.get('abort'))]+=1
        for a in p['alarms']: al[(a['kind'],a['fn'],a['line'],a['msg'][:140])]+=1
    for k,v in rets.most_common(10): print(" ",v,k)
    for k,v in al.most_common(12): print("  ",v,k)
