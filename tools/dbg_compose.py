import sys, time, collections; sys.path.insert(0,'/verif')
from vlib import compose_grid as C, report
t=time.time()
cg=C.run('quick')
print("cells", cg['ncells'], "wall", round(cg['wall'],1))
chk=report.Check("C10","quick"); chk.known={}
per=C.oracle(chk, cg)
print(per)
for v in chk.violations[:12]: print(v['rule'], v['instance'], v['message'][:220])
print({k:(v['instances'],v['ok']) for k,v in chk.rules.items()})
