#!/bin/bash
# run each K cell separately with a time limit, in parallel; results in /tmp/kcells/<id>.txt
mkdir -p /tmp/kcells; rm -f /tmp/kcells/*
cd /verif
for c in 'K$sha1' 'K$2a$' 'K$2b$' 'K$2x$' 'K$2y$' 'K$gy$' 'K$md5' 'K$1$' 'K$3$' 'K$5$' 'K$6$' 'K$7$' 'K$y$' 'K_' 'Kdes' 'Kempty'; do
  ( /usr/bin/time -f "elapsed=%e" timeout ${1:-150} python3 tools/dbg_k.py "$c" 200000 60000000 > "/tmp/kcells/$c.txt" 2>&1; echo "rc=$?" >> "/tmp/kcells/$c.txt" ) &
done
wait
