import sys, time, collections, json; sys.path.insert(0,'/verif')
from vlib import crypt_grid as K, xai, common
m,info=common.prog('shared')
cells,meta,rows=K.build_cells(m,'quick')
cells=[c for c in cells if c['id']==sys.argv[1]]
import os
if os.environ.get("ALIGN"):
    a=int(os.environ["ALIGN"])
    for c in cells:
        for r in c["roots"]:
            if r["name"]=="align": r["lo"]=r["hi"]=a
cfg=K.config(m); cfg['maxPaths']=int(sys.argv[2]) if len(sys.argv)>2 else 300
if len(sys.argv)>3: cfg['maxSteps']=int(sys.argv[3])
t=time.time()
res=xai.run_cells(info['bc'], cells, cfg, jobs=1)
print("wall", round(time.time()-t,1))
for cid,c in res.items():
    print("==",cid,"npaths",c['npaths'],"budget",c['budget'],"records",len(c['paths']))
    al=collections.Counter(); rets=collections.Counter()
    for p in c['paths']:
        rets[(p['ret'].split('+')[0], str(p['errno']), str(p['roots'][3]))]+=1
        for a in p['alarms']: al[(a['kind'],a['fn'],a['line'],a['msg'][:140])]+=1
    for k,v in rets.most_common(10): print(" ",v,k)
    for k,v in al.most_common(12): print("  ",v,k)
    for p in c['paths'][:4000]:
        if p['ret'].startswith('ptr') and not p['alarms']:
            chars,term=xai.out_string(p.get('out',[])); print("   ex:", xai.show(chars)[:100], term, p['roots'], p['steps']); break
