import sys, time, collections; sys.path.insert(0,'/verif')
from vlib import crypt_grid as K, xai
only=sys.argv[1:] or None
t=time.time()
g=K.run('quick', only=only)
print("wall", round(time.time()-t,1))
for cid,c in g['res'].items():
    print("==",cid,"npaths",c['npaths'],"budget",c['budget'],"records",len(c['paths']))
    al=collections.Counter(); rets=collections.Counter()
    for p in c['paths']:
        rets[(p['ret'].split('+')[0], str(p['errno']))]+=1
        for a in p['alarms']: al[(a['kind'],a['fn'],a['line'],a['msg'][:140])]+=1
    print(dict(rets))
    for k,v in al.most_common(12): print("  ",v,k)
    for p in c['paths']:
        if p['ret'].startswith('ptr') and not p['alarms']:
            chars,term=xai.out_string(p.get('out',[])); print("   ex:", xai.show(chars)[:100], term, p['roots']); break
