import sys, time, collections; sys.path.insert(0,'/verif')
from vlib import crypt_grid as K, xai
t=time.time()
g=K.run(sys.argv[1] if len(sys.argv)>1 else 'quick')
print("wall", round(time.time()-t,1), "cells", g['ncells'])
for cid,c in sorted(g['res'].items()):
    al=collections.Counter(); rets=collections.Counter()
    for p in c['paths']:
        rets[(p['ret'].split('+')[0], str(p['errno']))]+=1
        for a in p['alarms']: al[(a['kind'],a['fn'],a['line'],a['msg'][:120])]+=1
    print(cid, c['npaths'], c['budget'], dict(rets), list(al.items())[:3])
