import sys, json, collections; sys.path.insert(0,'/verif')
from vlib import compose_grid as C, gensalt_grid as G, crypt_grid as K, common, xai
g=G.run('quick'); m,info=common.prog('shared')
cells,meta=C.build_cells(m,g,'quick')
want=sys.argv[1]
cells=[c for c in cells if c['id']==want]
print(xai.show([(s,0) for s in meta[want]['pattern']]))
cfg=K.config(m, {"check_badsalt_chars": [{"op": "ret", "lo": 0, "hi": 0}]})
res=xai.run_cells(info['bc'], cells, cfg, jobs=1)
for cid,c in res.items():
    print(cid, c['npaths'], c.get('ndedup'), c['budget'])
    for p in c['paths']:
        print(' ', p['ret'], p['errno'], p.get('errno_at'), p.get('abort'), p['steps'], [(a['kind'],a['fn'],a['line'],a['msg'][:100]) for a in p['alarms']][:3])
