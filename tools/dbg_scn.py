import sys, json; sys.path.insert(0,'/verif')
from vlib import crypt_grid as K, common
m,info=common.prog('shared')
cells,meta,rows=K.build_cells(m,'quick')
cells=[c for c in cells if c['id']==sys.argv[1]]
cfg=K.config(m); cfg['maxPaths']=3000; cfg['maxSteps']=400000
json.dump({"config":cfg,"cells":cells}, open(sys.argv[2],'w'))
print(info['bc'])
