PENDING = "check not built yet in this round (planned in DESIGN.md); not claimed until it exists"
CHECKS = {
 "C08": {"engine": "IRF", "level": "proof", "ref": "DESIGN.md §4 C08",
   "technique": "static effect analysis: table-resolved whole-program call-graph closure + who-may-reference rule on LLVM IR",
   "text": "Sound static data-race-freedom argument: the call-graph closure of the seven re-entrant entry points (indirect calls resolved against the hash table, both library flavours) references no mutable static storage, calls only MT-Safe libc functions, and contains no memory-writing inline asm; hence calls on distinct objects share no writable location. Every (function, global) and (function, external callee) pair is an obligation; all are discharged.",
   "note": "Trusts clang's front end, the irfacts extractor, the MT-Safe allow-list (glibc manual), and the pinned feature configuration (arc4random_buf present). Does not cover the fallback RNG chain of other configure results."},
 "C18": {"engine": "IRF+TAB", "level": "proof", "ref": "DESIGN.md §4 C18",
   "technique": "path-complete enumeration of crypt_checksalt over SSA with named branch atoms; table/oracle comparison (compiled hash table vs hashes.conf vs documented strong set)",
   "text": "All acyclic paths of crypt_checksalt are enumerated (6 today) and the constant each returns is compared with the specification on every completion of its branch atoms, so the INVALID/OK/LEGACY classification is decided for every input string, not sampled. The compiled hash table is compared with hashes.conf and the documented strong set; lookup shadowing, the preferred-method constant and gensalt's NULL-prefix default are decided on the IR.",
   "note": "Trusts clang, irfacts, the path enumerator's correlated-branch pruning, and that check_badsalt_chars/get_hashfn (shared with do_crypt, checked) implement the character filter and tag lookup (their semantics are under C05/C06). 'crypt succeeds => not INVALID' is via the shared filter, method-level non-emptiness is not decided here."},
 "C20": {"engine": "WIT+IRF", "level": "proof", "ref": "DESIGN.md §4 C20",
   "technique": "compile-fail witnesses (_Static_assert, re-declaration) against the regenerated crypt.h + read-back of .symver directives, IR aliases and the generated version script",
   "text": "Struct size, every field offset/size, every public constant and the nine prototypes are compile-time witnesses against the header regenerated from the working tree (a violated one is a compile error naming the field); the oracle numbers are witnessed against the released header in the image. Every released (symbol, version) pair must be bound by a .symver directive to an external definition, listed global in the regenerated libcrypt.map, all versions of a name bind to one definition, and compat-only names are aliases of the modern functions.",
   "note": "Trusts clang's constant evaluation, the repo's perl generators as run by the check, GNU ld's version-script semantics, and the frozen released export set (oracles/released_abi.json: image's libcrypt.so.1 united with the pinned full build). Behaviour of setkey/encrypt is under C17."},
}
NOT_APPLICABLE = {
 "C16": "numerical equality of MD4/MD5/SHA-1/SHA-2/Streebog/HMAC/PBKDF2 with their standards for every length and chunking quantifies over runtime values; no static argument in reach (no execution, no solver) bounds them. Constants (C02), wipes (C09) and buffer safety (C04) of these files are claimed under those properties instead.",
}
for p in ["C01","C02","C03","C04","C05","C06","C07","C09","C10","C11","C12","C13","C14","C15","C17","C19"]:
    NOT_APPLICABLE.setdefault(p, PENDING)
NOTES = "Technique family: static analysis. Exit codes of every check: 0 held, 1 VIOLATION, 2 ANALYSIS-BROKEN (anchor vanished / instance floor not met / tree does not compile). known_findings.txt lists recorded findings and fixed defects."
