PENDING = "check not built yet in this round (planned in DESIGN.md); not claimed until it exists"
CHECKS = {
 "C08": {"engine": "IRF", "level": "proof", "ref": "DESIGN.md §4 C08",
   "technique": "static effect analysis: table-resolved whole-program call-graph closure + who-may-reference rule on LLVM IR",
   "text": "Sound static data-race-freedom argument: the call-graph closure of the seven re-entrant entry points (indirect calls resolved against the hash table, both library flavours) references no mutable static storage, calls only MT-Safe libc functions, and contains no memory-writing inline asm; hence calls on distinct objects share no writable location. Every (function, global) and (function, external callee) pair is an obligation; all are discharged.",
   "note": "Trusts clang's front end, the irfacts extractor, the MT-Safe allow-list (glibc manual), and the pinned feature configuration (arc4random_buf present). Does not cover the fallback RNG chain of other configure results."},
}
NOT_APPLICABLE = {
 "C16": "numerical equality of MD4/MD5/SHA-1/SHA-2/Streebog/HMAC/PBKDF2 with their standards for every length and chunking quantifies over runtime values; no static argument in reach (no execution, no solver) bounds them. Constants (C02), wipes (C09) and buffer safety (C04) of these files are claimed under those properties instead.",
}
for p in ["C01","C02","C03","C04","C05","C06","C07","C09","C10","C11","C12","C13","C14","C15","C17","C18","C19","C20"]:
    NOT_APPLICABLE.setdefault(p, PENDING)
NOTES = "Technique family: static analysis. Exit codes of every check: 0 held, 1 VIOLATION, 2 ANALYSIS-BROKEN (anchor vanished / instance floor not met / tree does not compile). known_findings.txt lists recorded findings and fixed defects."
