#!/usr/bin/env python3
"""Regenerate MANIFEST.json from tools/manifest_src.py (single source of truth) and validate it."""
import json, os, sys
ROOT = os.path.dirname(os.path.dirname(os.path.abspath(__file__)))
sys.path.insert(0, ROOT)
from tools.manifest_src import CHECKS, NOT_APPLICABLE, NOTES
props = [json.loads(l)["id"] for l in open(os.path.join(ROOT, "properties.jsonl"))]
checks = []
for pid in props:
    if pid not in CHECKS:
        continue
    c = CHECKS[pid]
    checks.append({
        "property_id": pid,
        "quick_cmd": "bin/check %s --tier quick" % pid,
        "thorough_cmd": "bin/check %s --tier thorough" % pid,
        "evidence_file": "/verif/evidence/%s.json" % pid,
        "replay_cmd_template": "bin/check %s --replay {path}" % pid,
        "engine": c["engine"],
        "level_claimed": {"category": c["level"], "text": c["text"], "design_ref": c["ref"]},
        "level_note": c["note"],
        "technique": c["technique"],
    })
na = [{"property_id": p, "reason": NOT_APPLICABLE[p]} for p in props if p not in CHECKS]
missing = [p for p in props if p not in CHECKS and p not in NOT_APPLICABLE]
assert not missing, missing
man = {
    "version": 1,
    "setup_cmd": "make -C /verif/src",
    "hooks": {"guard": "BESSER82_LIBXCRYPT_VERIF",
              "enable": "no hooks: the analysers read /repo's sources as they are (clang front end -> LLVM IR); nothing in /repo is instrumented",
              "baseline_off_cmd": "make -C /repo check",
              "source_commits": [], "add_only": True},
    "engines": [
        {"name": "FRONT+IRF", "path": "vlib/front.py src/irfacts.cc vlib/ir.py",
         "serves_properties": sorted(CHECKS),
         "kind_free_text": "regenerates headers with the repo's perl generators, compiles every unit of libcrypt.la to LLVM bitcode (clang -O0, sroa+mem2reg only), dumps facts; Python rule kit: resolved call graph, dominators/post-dominators, correlated-branch path search"},
        {"name": "XAI", "path": "src/xai.cc", "serves_properties": [p for p in sorted(CHECKS) if "XAI" in CHECKS[p]["engine"]],
         "kind_free_text": "path-forking abstract interpreter over LLVM IR (ConstantRange x KnownBits, byte-precise small buffers, input partitioning)"},
    ],
    "checks": checks,
    "not_applicable": na,
    "notes": NOTES,
}
json.dump(man, open(os.path.join(ROOT, "MANIFEST.json"), "w"), indent=1)
try:
    import jsonschema
except ImportError:
    print("(jsonschema not importable here; run with python3-vt to validate)"); sys.exit(0)
jsonschema.validate(man, json.load(open("/root/.vp/MANIFEST.schema.json")))
print("MANIFEST.json written: %d checks, %d not applicable" % (len(checks), len(na)))
