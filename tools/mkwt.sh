#!/bin/bash
# tools/mkwt.sh <name>: scratch git worktree of /repo under /tmp/wt/<name>, with the configure outputs copied so it builds offline
set -e
N=$1; D=/tmp/wt/$N
mkdir -p /tmp/wt
git -C /repo worktree add -q --detach $D HEAD
cd /repo
for f in Makefile Makefile.in Makefile.deps configure config.h config.h.in config.status config.log libtool aclocal.m4 stamp-h1 libxcrypt.pc crypt.h crypt-hashes.h crypt-symbol-vers.h libcrypt.map xcrypt.h; do [ -e $f ] && cp -a $f $D/ ; done
cp -a build-aux/m4-autogen $D/build-aux/ 2>/dev/null || true
for f in build-aux/m4/libtool.m4 build-aux/m4/ltoptions.m4 build-aux/m4/ltsugar.m4 build-aux/m4/ltversion.m4 build-aux/m4/lt~obsolete.m4; do [ -e $f ] && cp -a $f $D/$f; done
cp -a autom4te.cache $D/ 2>/dev/null || true
touch $D/*.stamp 2>/dev/null || true
cd $D && touch aclocal.m4 configure Makefile.in config.h.in config.status Makefile config.h stamp-h1 && (make -j8 > build.log 2>&1 && echo "built $D") || (tail -5 build.log; exit 1)
