#!/bin/bash
# tools/mut.sh <PROPERTY> <sed-expr> <file-in-repo> [tier]: apply a one-off mutation to /repo, run the check, undo.
P=$1; EXPR=$2; F=$3
cd /repo || exit 9
if [ -n "$(git status --porcelain)" ]; then echo "repo dirty"; exit 9; fi
sed -i -E "$EXPR" "$F"
git diff --stat | tail -1
cd /verif
cp evidence/$P.json /tmp/.evidence.$P.bak 2>/dev/null
bin/check $P ${4:+--tier $4} | grep -v "^  rule" | cut -c1-${MUTCOLS:-400} | head -${MUTLINES:-12}
echo "exit=${PIPESTATUS[0]}"
git -C /repo checkout -- .
[ -f /tmp/.evidence.$P.bak ] && mv /tmp/.evidence.$P.bak evidence/$P.json
