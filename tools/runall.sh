#!/bin/bash
# run every registered quick (or $1=thorough) check on the current tree and validate the evidence files
cd /verif
TIER=${1:-quick}
rc=0
for P in $(python3 -c "import json;print(' '.join(c['property_id'] for c in json.load(open('MANIFEST.json'))['checks']))"); do
  out=$(bin/check $P --tier $TIER 2>&1); e=$?
  echo "$P exit=$e $(echo "$out" | tail -1 | cut -c1-150)"
  [ $e -ne 0 ] && rc=1 && echo "$out" | grep -v "^  rule" | head -8
done
python3-vt - <<'PY'
import json, jsonschema, glob
sch = json.load(open('/root/.vp/EVIDENCE.schema.json'))
man = json.load(open('/verif/MANIFEST.json'))
for c in man['checks']:
    ev = json.load(open(c['evidence_file']))
    jsonschema.validate(ev, sch)
    cov = ev['coverage']
    assert ev['level'] == c['level_claimed']['category'], (c['property_id'], ev['level'])
    if ev['level'] == 'proof':
        assert cov['obligations'] == cov['discharged'], c['property_id']
    assert ev.get('violations', 0) == 0, c['property_id']
print("evidence files valid:", len(man['checks']))
PY
exit $rc
