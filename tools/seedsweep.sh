#!/bin/bash
# tools/seedsweep.sh <slot> [ids...]: regression sweep over stored seeded changes, on a scratch worktree (never /repo):
# apply each change, run the check(s) of its property with VERIF_REPO / VERIF_OUT redirected, undo; one line per seed.
# Several slots can run in parallel: tools/seedsweep.sh 0 $(ls seeded | awk 'NR%3==0') & ...
SLOT=$1; shift
W=/tmp/wt/sweep$SLOT
cd /verif
if [ ! -d $W ]; then tools/mkwt.sh sweep$SLOT > /dev/null 2>&1 || { echo "cannot create $W"; exit 9; }; fi
git -C $W checkout -q --detach $(git -C /repo rev-parse HEAD) 2>/dev/null; git -C $W checkout -- . 2>/dev/null
export VERIF_REPO=$W VERIF_OUT=/tmp/wt/sweepout$SLOT
mkdir -p $VERIF_OUT
for ID in "$@"; do
  [ -f seeded/$ID/patch.diff ] || continue
  PROPS=$(python3 -c "
import json,re
m=json.load(open('/verif/seeded/$ID/meta.json'))
print(' '.join(sorted(set(re.findall(r'C\d\d', str(m.get('caught_by') or '') + ' ' + m['property'])))))")
  ( cd $W && git apply /verif/seeded/$ID/patch.diff ) || { echo "$ID: patch does not apply"; git -C $W checkout -- .; continue; }
  RES=""
  for P in $PROPS; do
    timeout 1500 bin/check $P > $VERIF_OUT/last.out 2>&1; rc=$?
    RES="$RES $P=$rc"
  done
  git -C $W checkout -- .
  echo "$ID:$RES"
done
