#!/bin/bash
# tools/seedtest.sh <worktree-name> <seed-id> <PROP> [more PROPs...]: confirm a sub-agent's seeded change, store it, run checks against it
W=/tmp/wt/$1; ID=$2; shift 2
set -u
cd $W || exit 9
[ -f patch.diff ] || git diff -- lib > patch.diff
echo "== confirming demo in $W"
DEMOSRC=$(ls demo.c 2>/dev/null)
CC="cc -I. -Ilib -DHAVE_CONFIG_H demo.c .libs/libcrypt.a -o demo"
grep -q "wrap=" notes.md 2>/dev/null && CC="$CC $(grep -o '\-Wl,--wrap=[a-z_]*' notes.md | sort -u | tr '\n' ' ')"
make -j8 > /dev/null 2>&1; eval $CC 2>/dev/null || cc -I. demo.c .libs/libcrypt.a -o demo; ./demo > /tmp/demo_with.txt 2>&1; RC_WITH=$?
git apply -R patch.diff; make -j8 > /dev/null 2>&1; eval $CC 2>/dev/null || cc -I. demo.c .libs/libcrypt.a -o demo; ./demo > /tmp/demo_without.txt 2>&1; RC_WITHOUT=$?
git apply patch.diff; make -j8 > /dev/null 2>&1
echo "demo rc with change=$RC_WITH without=$RC_WITHOUT"
mkdir -p /verif/seeded/$ID
cp patch.diff /verif/seeded/$ID/patch.diff; cp demo.c /verif/seeded/$ID/ 2>/dev/null; cp notes.md /verif/seeded/$ID/agent_notes.md 2>/dev/null
cd /repo || exit 9
[ -n "$(git status --porcelain)" ] && { echo "repo dirty"; exit 9; }
git apply /verif/seeded/$ID/patch.diff || { echo "patch does not apply"; exit 8; }
cd /verif
RES=""
for P in "$@"; do
  cp evidence/$P.json /tmp/.ev.$P 2>/dev/null
  out=$(timeout 1500 bin/check $P 2>&1); rc=$?
  echo "-- $P exit=$rc"; echo "$out" | grep -v "^  rule" | head -4 | cut -c1-300
  RES="$RES $P=$rc"
  [ -f /tmp/.ev.$P ] && mv /tmp/.ev.$P evidence/$P.json
done
git -C /repo checkout -- .
echo "RESULT $ID demo_with=$RC_WITH demo_without=$RC_WITHOUT checks:$RES"
