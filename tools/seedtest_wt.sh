#!/bin/bash
# tools/seedtest_wt.sh <worktree-name> <seed-id> <PROP> [more PROPs...]: like seedtest.sh, but the checks analyse the agent's
# worktree directly (VERIF_REPO) and write to a scratch output directory (VERIF_OUT); /repo is not touched
W=/tmp/wt/$1; ID=$2; shift 2
cd $W || exit 9
[ -f patch.diff ] || git diff > patch.diff
CC="cc -I. -Ilib -DHAVE_CONFIG_H demo.c .libs/libcrypt.a -o demo"
grep -q "wrap=" notes.md 2>/dev/null && CC="$CC $(grep -o '\-Wl,--wrap=[a-z_]*' notes.md | sort -u | tr '\n' ' ')"
grep -q "\-ldl" notes.md 2>/dev/null && CC="$CC -ldl"
grep -q "pthread" notes.md 2>/dev/null && CC="$CC -lpthread"
make -j8 > /dev/null 2>&1; eval $CC 2>/dev/null || cc -I. demo.c .libs/libcrypt.a -o demo -ldl -lpthread; ./demo > /tmp/demo_with.txt 2>&1; RC_WITH=$?
git apply -R patch.diff; make -j8 > /dev/null 2>&1; eval $CC 2>/dev/null || cc -I. demo.c .libs/libcrypt.a -o demo -ldl -lpthread; ./demo > /tmp/demo_without.txt 2>&1; RC_WITHOUT=$?
git apply patch.diff; make -j8 > /dev/null 2>&1
echo "demo rc with change=$RC_WITH without=$RC_WITHOUT"
mkdir -p /verif/seeded/$ID
cp patch.diff /verif/seeded/$ID/patch.diff; cp demo.c /verif/seeded/$ID/ 2>/dev/null; cp notes.md /verif/seeded/$ID/agent_notes.md 2>/dev/null
( cd /repo && git apply --check /verif/seeded/$ID/patch.diff ) || echo "WARNING: patch does not apply to /repo"
cd /verif
export VERIF_REPO=$W VERIF_OUT=/tmp/wt/out_$(basename $W)
mkdir -p $VERIF_OUT
RES=""
for P in "$@"; do
  out=$(timeout 1500 bin/check $P 2>&1); rc=$?
  echo "-- $P exit=$rc"; echo "$out" | grep -v "^  rule" | head -4 | cut -c1-300
  RES="$RES $P=$rc"
done
echo "RESULT $ID demo_with=$RC_WITH demo_without=$RC_WITHOUT checks:$RES"
