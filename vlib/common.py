"""Shared helpers for the property checks."""
import os, re
from . import front, ir
from .report import AnalysisBroken

_PROG = {}


def prog(flavour="shared", **kw):
    key = (flavour, tuple(sorted((k, str(v)) for k, v in kw.items())))
    if key not in _PROG:
        info = front.build(flavour, **kw)
        if "compile_errors" in info or "link_errors" in info:
            raise AnalysisBroken("the tree does not compile with clang: %s" %
                                 (info.get("compile_errors") or info.get("link_errors")))
        _PROG[key] = (ir.Module(info["facts"]), info)
    return _PROG[key]


def sym(m, name, required=True):
    """IR function for a public/internal C name (symbol-renaming macro adds _crypt_)"""
    for n in ("_crypt_" + name, name):
        f = m.fn(n)
        if f is not None:
            return f
    if required:
        raise AnalysisBroken("anchor function %s not found in the analysed program" % name)
    return None


REENTRANT_API = ["crypt_r", "crypt_rn", "crypt_ra", "crypt_gensalt_rn", "crypt_gensalt_ra",
                 "crypt_checksalt", "crypt_preferred_method"]
HASH_API = ["crypt", "crypt_r", "crypt_rn", "crypt_ra"]
ALL_API = ["crypt", "crypt_r", "crypt_rn", "crypt_ra", "crypt_gensalt", "crypt_gensalt_rn",
           "crypt_gensalt_ra", "crypt_checksalt", "crypt_preferred_method"]
OBSOLETE_API = ["encrypt", "encrypt_r", "setkey", "setkey_r"]


def short(path):
    return path.replace(front.REPO + "/", "") if path else path


def loc(I):
    return "%s:%d" % (short(I.file or I.fn.file), I.line)


def is_mutable_global(g):
    return (not g["const"]) and (not g["decl"])


def errno_stores(fn):
    """instructions `store <const>, (call __errno_location())` in fn -> list of (Inst, value|None)"""
    out = []
    for I in fn.all_insts():
        if I.op == "store":
            p = I.ops[1]
            if p[0] == "v":
                J = fn.insts.get(p[1])
                if J is not None and J.is_call and J.callee == "__errno_location":
                    out.append((I, ir.cval(I.ops[0], signed=True)))
    return out


def doc_hash_table():
    """parse doc/crypt.5 .hash macro lines: name, prefix, regex, maxpw, hashsize, effhash, saltsize, cost"""
    path = os.path.join(front.REPO, "doc", "crypt.5")
    rows = {}
    cur = None
    with open(path, errors="replace") as f:
        lines = f.read().split("\n")
    i = 0
    while i < len(lines):
        L = lines[i]
        if L.startswith(".Ss "):
            cur = L[4:].strip()
        if L.startswith(".hash "):
            rows[cur] = L
        i += 1
    return rows


def crypt_data_field_geps(m):
    """all typed address computations into struct crypt_data: list of (Function, Inst, field)"""
    out = []
    for F in m.functions.values():
        for I in F.all_insts():
            if I.op == "getelementptr":
                for step in I.d.get("path", []):
                    if step[0] == "s" and step[1] == "struct.crypt_data":
                        out.append((F, I, step[2]))
    return out


def uses_closure(F, vid):
    """all instructions using a value derived (gep/bitcast/phi/select/ptrtoint arithmetic) from vid"""
    der = F.based_on([vid])
    seen = []
    for v in der:
        for U in F.users(v):
            if U.id in der and U.op in ("getelementptr", "bitcast", "phi", "select", "ptrtoint", "inttoptr", "add", "sub", "and"):
                continue
            seen.append((v, U))
    return der, seen
