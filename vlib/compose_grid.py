"""Composition grid: the abstract settings produced by the gensalt grid are fed, as abstract strings, into
crypt_rn.  Decides (for every method whose crypt path the interpreter covers) that crypt never rejects a
setting crypt_gensalt can produce and that the result echoes it."""
import time
from . import common, xai, gensalt_grid as G, crypt_grid as K
from .report import AnalysisBroken

EINVAL = 22
DIGITS = frozenset(b"0123456789")
# errno sites that do not reject the setting: bcrypt's built-in self-test compares digests the interpreter cannot know
NOT_A_REJECTION = {"BF_full_crypt": "bcrypt self-test outcome (digest comparison, not decidable abstractly)"}
# methods left out of the composition: their generated round count is randomised (digit sets of varying length),
# so neither acceptance of the numeric field nor the positional echo is decidable from byte sets
SKIP_METHODS = {}
# for these the digit sets of the randomised numeric field are replaced by one concrete representative (smallest digits);
# the salt part stays fully abstract, so acceptance of every generated *salt* is still decided
CONCRETISE_DIGITS = {"sunmd5", "sha1crypt"}
# methods whose generated numeric field is randomised (digit sets, variable length): positional echo is not decidable
ECHO_UNDECIDED = set()


def patterns(g, tier):
    """distinct abstract settings per method: (method, tuple of frozensets) from succeeding gensalt paths with a
    documented buffer size"""
    pats = {}
    for cid, c in g["res"].items():
        mt = g["meta"][cid]
        if mt["row"] is None or mt["kind"] not in ("exact", "auto", "point"):
            continue
        if mt["kind"] == "exact" and not (mt["nrbytes"][0] in (1, 2, 3, 4, 6, 8, 9, 12, 15, 16, 20, 32, 48, 56, 64, 80) or mt["nrbytes"][0] != mt["nrbytes"][1]):
            if tier == "quick":
                continue
        method = G.method_of_row(mt["row"])
        for p in c["paths"]:
            if not G.is_success(p) or p["roots"][2][1] < 192:
                continue
            chars, term = G.path_string(p)
            if not term:
                continue
            key = tuple(s for s, pr in chars)
            pats.setdefault(method, {}).setdefault(key, cid)
            PROVS.setdefault((method, key), tuple(pr for s, pr in chars))
    return pats


ORIG = {}        # (method, concretised pattern) -> generated pattern
# exact-length settings keep every string inside the data object concrete, so gost-yescrypt (which copies the setting into its
# scratch area and re-parses yescrypt's result there) is analysable here although the K grid cannot cover it; the scratch
# structures lie beyond the default dense prefix of the data object, hence the larger TRACK
COMPOSE_UNCOVERED = {}
TRACK = 4096
PROVS = {}       # (method, pattern) -> provenance of each generated character (1 = random bytes, 8 = count)
P_RBYTES, P_COUNT = 1, 8
A64 = frozenset(b"./0123456789ABCDEFGHIJKLMNOPQRSTUVWXYZabcdefghijklmnopqrstuvwxyz")
# alphabet of the salt / cost characters per method where the format restricts it (crypt.5); a generated setting with one
# such character replaced by a filter-clean character outside the alphabet (and not '$') is malformed and must be refused.
# md5crypt, sha256crypt, sha512crypt, sunmd5, sha1crypt accept any salt character; NT has neither salt nor cost.
FIELD_ALPHABET = {
    "yescrypt": {P_RBYTES: A64, P_COUNT: A64}, "gost_yescrypt": {P_RBYTES: A64, P_COUNT: A64}, "scrypt": {P_COUNT: A64},
    "bcrypt": {P_RBYTES: A64, P_COUNT: DIGITS}, "bcrypt_a": {P_RBYTES: A64, P_COUNT: DIGITS}, "bcrypt_y": {P_RBYTES: A64, P_COUNT: DIGITS}, "bcrypt_x": {P_RBYTES: A64, P_COUNT: DIGITS},
    "bsdicrypt": {P_RBYTES: A64, P_COUNT: A64}, "descrypt": {P_RBYTES: A64}, "bigcrypt": {P_RBYTES: A64},
    "sha256crypt": {P_COUNT: DIGITS}, "sha512crypt": {P_COUNT: DIGITS}, "sunmd5": {P_COUNT: DIGITS}, "sha1crypt": {P_COUNT: DIGITS},
}
# scrypt: the library checks salt characters only up to the first '$' of the salt field and hashes the field as raw bytes;
# a foreign character in the salt proper is refused, which the near-miss grid confirms via P_RBYTES as well
FIELD_ALPHABET["scrypt"][P_RBYTES] = A64
# methods whose salt field has a fixed alphabet and no inner structure: a '$' inside it is malformed (scrypt is left out: the
# library takes its salt up to the last '$' of the string, observed and documented in DESIGN.md 8.7)
DOLLAR_REJECT = {"yescrypt", "gost_yescrypt", "bcrypt", "bcrypt_a", "bcrypt_x", "bcrypt_y", "bsdicrypt"}


def near_miss_cells(m, g, tier):
    """generated settings with exactly one salt / cost character replaced by the set of all filter-clean characters
    outside that field's alphabet"""
    entry = common.sym(m, "crypt_rn").name
    cells, meta = [], {}
    pats = patterns(g, tier)
    for method, d in sorted(pats.items()):
        fa = FIELD_ALPHABET.get(method)
        row = next(r for r in g["rows"] if G.method_of_row(r) == method)
        if not fa or row["prefix"] in COMPOSE_UNCOVERED:
            continue
        items = sorted(d.items(), key=lambda kv: (len(kv[0]), kv[1]))
        chosen = [items[0]] + ([items[-1]] if len(items) > 1 else [])
        for pi, (key, src) in enumerate(chosen):
            provs = PROVS[(method, key)]
            for field, alpha in sorted(fa.items()):
                pos = [i for i, pr in enumerate(provs) if pr & field and len(key[i] - alpha) == 0]
                if not pos:
                    continue
                allpos = list(pos)
                if tier == "quick" and len(pos) > 6:
                    pos = sorted(set([pos[0], pos[1], pos[2], pos[3], pos[len(pos) // 2], pos[-1]]))
                bad = K.CLEAN - alpha - frozenset(b"$")
                if field == P_COUNT and alpha == DIGITS and len(allpos) >= 5 and method not in ("bcrypt", "bcrypt_a", "bcrypt_x", "bcrypt_y"):
                    # decimal cost with a leading zero whose value is still in range (crypt.5: [1-9][0-9]+): malformed
                    k2 = list(key)
                    k2[allpos[0]] = frozenset(b"0")
                    for j in allpos[1:]:
                        k2[j] = frozenset(b"9")
                    cid = "N%s#%d@lead0" % (method, pi)
                    cells.append(K.crypt_cell(cid, entry, b"", setting_bytes=b"", headsets=k2, size=(32768, 32768), align=(0, 0)))
                    meta[cid] = {"method": method, "pattern": tuple(k2), "pos": pos[0], "field": "cost (leading zero)", "row": row, "from": src}
                if field == P_RBYTES and method in DOLLAR_REJECT and len(allpos) >= 4:
                    # a '$' in the middle of the salt of a fixed-alphabet method, with the field still closed by a final '$'
                    # (without the final '$' what follows the inner one would be a hash portion, which is legitimate)
                    k2 = list(key)
                    k2[allpos[len(allpos) // 2]] = frozenset(b"$")
                    while k2 and k2[-1] == frozenset(b"$"):
                        k2.pop()
                    k2.append(frozenset(b"$"))
                    cid = "N%s#%d@dollar" % (method, pi)
                    cells.append(K.crypt_cell(cid, entry, b"", setting_bytes=b"", headsets=k2, size=(32768, 32768), align=(0, 0)))
                    meta[cid] = {"method": method, "pattern": tuple(k2), "pos": allpos[len(allpos) // 2], "field": "salt ('$' inside)", "row": row, "from": src}
                for i in pos:
                    k2 = list(key)
                    k2[i] = frozenset(bad)
                    if method in CONCRETISE_DIGITS:
                        k2 = [frozenset([min(x)]) if (len(x) > 1 and x <= DIGITS) else x for x in k2]
                    cid = "N%s#%d@%d" % (method, pi, i)
                    c = K.crypt_cell(cid, entry, b"", setting_bytes=b"", headsets=k2, size=(32768, 32768), align=(0, 0))
                    cells.append(c)
                    meta[cid] = {"method": method, "pattern": tuple(k2), "pos": i, "field": "salt" if field == P_RBYTES else "cost", "row": row, "from": src}
    return cells, meta


def run_near_miss(tier="quick"):
    key = ("nm", tier)
    if key in _CACHE:
        return _CACHE[key]
    g = G.run(tier)
    m, info = common.prog("shared")
    cells, meta = near_miss_cells(m, g, tier)
    kdf = [e for e in K.CONTRACTS["yescrypt_kdf"] if e.get("op") != "ret"] + [{"op": "ret", "lo": 0, "hi": 0}]
    cfg = K.config(m, {"check_badsalt_chars": [{"op": "ret", "lo": 0, "hi": 0}], "yescrypt_kdf": kdf})
    cfg["track"] = TRACK
    from . import unit_contracts
    for k in unit_contracts.CONTRACTS:
        cfg["contracts"].pop(k, None)
    t0 = time.time()
    res = xai.run_cells(info["bc"], cells, cfg, chunk=1)
    out = {"res": res, "meta": meta, "wall": time.time() - t0, "ncells": len(cells)}
    _CACHE[key] = out
    return out


def near_miss_oracle(chk, nm):
    chk.rule("X-REJECT", "a generated setting with one salt / cost character replaced by a filter-clean character outside that field's alphabet is refused: no path of crypt_rn succeeds")
    per = {}
    for cid, c in sorted(nm["res"].items()):
        mt = nm["meta"][cid]
        if c["budget"]:
            chk.deferred.append("near-miss cell %s exhausted its path budget" % cid)
        soft = [a for p in c["paths"] for a in p["alarms"] if a["kind"] in ("MODEL", "BUDGET")]
        if soft and all(a["kind"] == "BUDGET" for a in soft):
            chk.deferred.append("near-miss cell %s: %s" % (cid, soft[0]["msg"]))
        elif soft:
            raise AnalysisBroken("near-miss cell %s: %s" % (cid, soft[0]["msg"]))
        shown = xai.show([(s, 0) for s in mt["pattern"]])
        succ = [p for p in c["paths"] if p["ret"].startswith("ptr:")]
        if succ:
            chk.fail("X-REJECT", "%s|%s|%d" % (mt["method"], mt["field"], mt["pos"]),
                     "%s: the malformed setting %s (character %d of the %s field replaced by one of %s) is hashed instead of refused; result %s" % (
                         mt["method"], shown, mt["pos"], mt["field"], "".join(sorted(chr(x) for x in mt["pattern"][mt["pos"]]))[:24] + "...", xai.show(succ[0].get("out", []))[:80]),
                     "lib/", {"cell": cid})
        elif not c["paths"]:
            raise AnalysisBroken("near-miss cell %s produced no path" % cid)
        else:
            chk.ok("X-REJECT", cid, sample={"method": mt["method"], "setting": shown})
            per[mt["method"]] = per.get(mt["method"], 0) + 1
    return per


def build_cells(m, g, tier):
    entry = common.sym(m, "crypt_rn").name
    cells, meta = [], {}
    pats = patterns(g, tier)
    for method, d in sorted(pats.items()):
        row = next(r for r in g["rows"] if G.method_of_row(r) == method)
        if row["prefix"] in COMPOSE_UNCOVERED or method in SKIP_METHODS:
            continue
        items = sorted(d.items(), key=lambda kv: (len(kv[0]), kv[1]))
        # per distinct length keep at most two patterns (quick) / eight (thorough); cost digits do not change the parser's paths
        keep, perlen = [], {}
        for key, src in items:
            n = perlen.get(len(key), 0)
            if n < (2 if tier == "quick" else 8):
                keep.append((key, src))
                perlen[len(key)] = n + 1
        if tier == "quick" and len(keep) > 14:
            step = len(keep) / 14.0
            keep = [keep[int(i * step)] for i in range(14)] + [keep[-1]]
        if method in CONCRETISE_DIGITS:
            seen_k, keep2 = set(), []
            for key, src in keep:
                k2 = tuple(frozenset([min(x)]) if (len(x) > 1 and x <= DIGITS) else x for x in key)
                if k2 not in seen_k:
                    seen_k.add(k2)
                    keep2.append((k2, src))
                    ORIG[(method, k2)] = key
            keep = keep2
        for i, (key, src) in enumerate(keep):
            cid = "X%s#%d" % (method, i)
            c = K.crypt_cell(cid, entry, b"", setting_bytes=b"", headsets=list(key), size=(32768, 32768), align=(0, 0))
            cells.append(c)
            meta[cid] = {"method": method, "pattern": key, "from": src, "row": row, "provs": PROVS.get((method, key)) or PROVS.get((method, ORIG.get((method, key))))}
    return cells, meta


_CACHE = {}


def run(tier="quick"):
    if tier in _CACHE:
        return _CACHE[tier]
    g = G.run(tier)
    m, info = common.prog("shared")
    cells, meta = build_cells(m, g, tier)
    kdf = [e for e in K.CONTRACTS["yescrypt_kdf"] if e.get("op") != "ret"] + [{"op": "ret", "lo": 0, "hi": 0}]
    # assumptions of the composition: the generated setting is filter-clean (proved by C10 X-CLEAN) and the KDF itself
    # does not fail for resource reasons (allocation failures are C15's subject)
    cfg = K.config(m, {"check_badsalt_chars": [{"op": "ret", "lo": 0, "hi": 0}], "yescrypt_kdf": kdf})
    cfg["track"] = TRACK
    # generated settings have exact lengths: yescrypt's parsing helpers are interpreted as they are (no contract)
    from . import unit_contracts
    for k in unit_contracts.CONTRACTS:
        cfg["contracts"].pop(k, None)
    t0 = time.time()
    cells.sort(key=lambda c: 0 if c["id"].startswith(("Xbcrypt", "Xbsdi")) else 1)
    res = xai.run_cells(info["bc"], cells, cfg, chunk=1)
    out = {"res": res, "meta": meta, "wall": time.time() - t0, "ncells": len(cells), "gensalt": g}
    _CACHE[tier] = out
    return out


def oracle(chk, cg):
    chk.rule("X-ACCEPT", "crypt_rn never rejects (EINVAL) a setting that crypt_gensalt_rn can produce")
    chk.rule("X-ECHO", "the result of hashing with a generated setting starts with that setting (cell-wise) followed by the hash")
    per = {}
    for cid, c in sorted(cg["res"].items()):
        mt = cg["meta"][cid]
        if c["budget"]:
            chk.deferred.append("composition cell %s exhausted its path budget" % cid)
        pat = mt["pattern"]
        shown = xai.show([(s, 0) for s in pat])
        rej = [p for p in c["paths"] if p["ret"] == "null" and p["errno"] not in (None, "any") and p["errno"][0] <= EINVAL <= p["errno"][1]
               and p.get("errno_at", "").split(":")[0] not in NOT_A_REJECTION]
        hard = [a for p in c["paths"] for a in p["alarms"] if a["kind"] not in ("MODEL", "BUDGET")]
        soft = [a for p in c["paths"] for a in p["alarms"] if a["kind"] in ("MODEL", "BUDGET")]
        if soft and all(a["kind"] == "BUDGET" for a in soft):
            chk.deferred.append("composition cell %s: %s" % (cid, soft[0]["msg"]))
        elif soft:
            raise AnalysisBroken("composition cell %s: %s" % (cid, soft[0]["msg"]))
        if rej:
            chk.fail("X-ACCEPT", "%s|len=%d" % (mt["method"], len(pat)),
                     "%s: crypt_rn can fail with EINVAL (set at %s) on the generated setting %s (%d chars; produced by gensalt cell %s)" % (mt["method"], rej[0].get("errno_at"), shown, len(pat), mt["from"]),
                     "lib/", {"cell": cid, "setting": shown})
        elif not any(p["ret"].startswith("ptr:") for p in c["paths"]):
            chk.fail("X-ACCEPT", "%s|nosuccess|len=%d" % (mt["method"], len(pat)), "%s: hashing with the generated setting %s never succeeds" % (mt["method"], shown), "lib/", {"cell": cid})
        else:
            chk.ok("X-ACCEPT", cid, sample={"method": mt["method"], "setting": shown})
        for a in hard[:1]:
            chk.fail("X-ACCEPT", "%s|%s@%s:%d" % (mt["method"], a["kind"], a["fn"], a["line"]), "%s while hashing with generated setting %s: %s" % (a["kind"], shown, a["msg"]), "%s:%d" % (a["fn"], a["line"]))
        # echo
        for p in c["paths"]:
            if not p["ret"].startswith("ptr:") or mt["method"] in ECHO_UNDECIDED:
                continue
            if any(len(x) > 1 and x <= DIGITS for x in pat):
                continue        # numeric field given as digit sets: it is re-printed from a value range, positions are not comparable
            out = p.get("out", [])
            n = len(pat)
            want = list(pat)
            # trailing '$' of the setting may be dropped/re-added by the writer: compare up to the last non-'$' char
            while want and want[-1] == frozenset([ord("$")]):
                want.pop()
            got = [s for s, pr in out[:len(want)]]
            bad = [i for i in range(min(len(want), len(got))) if not (got[i] <= want[i] or len(got[i]) > 200)]
            if len(got) < len(want) or bad:
                i = bad[0] if bad else len(got)
                chk.fail("X-ECHO", "%s|pos%d" % (mt["method"], i), "%s: result %s does not carry the generated setting %s at position %d" % (mt["method"], xai.show(out[:n + 4]), shown, i), "lib/", {"cell": cid})
            else:
                chk.count("X-ECHO", 1, [cid])
        per[mt["method"]] = per.get(mt["method"], 0) + 1
    return per



def extra_cells(m, g):
    """accepted settings that crypt_gensalt cannot produce: over-long salts (documented as truncated), explicit default
    rounds, optional '$' terminators.  (method, tag, literal parts / number of salt characters, significant salt characters)"""
    entry = common.sym(m, "crypt_rn").name
    S = lambda n: [A64] * n
    L = lambda b: [frozenset([c]) for c in b]
    spec = [
        ("md5crypt", "salt12", L(b"$1$") + S(12), [0] * 3 + [1] * 8 + [0] * 4),
        ("md5crypt", "salt8$", L(b"$1$") + S(8) + L(b"$"), [0] * 3 + [1] * 8 + [0]),
        ("sha256crypt", "salt20", L(b"$5$") + S(20), [0] * 3 + [1] * 16 + [0] * 4),
        ("sha256crypt", "rounds5000+salt20", L(b"$5$rounds=5000$") + S(20), [0] * 10 + [8] * 4 + [0] + [1] * 16 + [0] * 4),
        ("sha256crypt", "salt8$", L(b"$5$") + S(8) + L(b"$"), [0] * 3 + [1] * 8 + [0]),
        ("sha512crypt", "salt20", L(b"$6$") + S(20), [0] * 3 + [1] * 16 + [0] * 4),
        ("sha512crypt", "rounds5000+salt20", L(b"$6$rounds=5000$") + S(20), [0] * 10 + [8] * 4 + [0] + [1] * 16 + [0] * 4),
        ("sha512crypt", "salt8$", L(b"$6$") + S(8) + L(b"$"), [0] * 3 + [1] * 8 + [0]),
        ("sunmd5", "bare$", L(b"$md5$") + S(8) + L(b"$"), [0] * 5 + [1] * 8 + [0]),
        ("sunmd5", "bare$$", L(b"$md5$") + S(8) + L(b"$$"), [0] * 5 + [1] * 8 + [0, 0]),
        ("sunmd5", "rounds-noterm", L(b"$md5,rounds=5000$") + S(8), [0] * 12 + [8] * 4 + [0] + [1] * 8),
        ("sha1crypt", "noterm", L(b"$sha1$1000$") + S(8), [0] * 6 + [8] * 4 + [0] + [1] * 8),
        ("sha1crypt", "salt64", L(b"$sha1$20000$") + S(64) + L(b"$"), [0] * 6 + [8] * 5 + [0] + [1] * 64 + [0]),
        ("bsdicrypt", "evencount", L(b"_A/..") + S(4), [0] + [8] * 4 + [1] * 4),
        # empty salts and the longest settings whose result still fits the output field
        ("md5crypt", "emptysalt", L(b"$1$$"), [0] * 4),
        ("yescrypt", "emptysalt", L(b"$y$j75$"), [0] * 3 + [8] * 3 + [0]),
        ("gost_yescrypt", "emptysalt", L(b"$gy$j75$"), [0] * 4 + [8] * 3 + [0]),
        ("scrypt", "emptysalt", L(b"$7$CU..../...."), [0] * 3 + [8] * 11),
        ("sha256crypt", "emptysalt", L(b"$5$$"), [0] * 4),
        ("sha512crypt", "emptysalt", L(b"$6$$"), [0] * 4),
        ("sha512crypt", "rounds-max+emptysalt", L(b"$6$rounds=999999999$"), [0] * 10 + [8] * 9 + [0]),
        ("sunmd5", "salt340", L(b"$md5$") + S(340), [0] * 5 + [1] * 340),
        ("sunmd5", "salt355", L(b"$md5$") + S(355), [0] * 5 + [1] * 355),
        ("sunmd5", "rounds-max", L(b"$md5,rounds=4294963199$") + S(8) + L(b"$"), [0] * 12 + [8] * 10 + [0] + [1] * 8 + [0]),
        ("sha1crypt", "rounds-max+salt64", L(b"$sha1$4294967295$") + S(64) + L(b"$"), [0] * 6 + [8] * 10 + [0] + [1] * 64 + [0]),
        ("nt", "trailing", L(b"$3$$") + S(6), [0] * 10),
        # a salt that looks like a rounds field: only the explicit rounds= in front of it keeps it a salt when H is re-parsed
        ("sha256crypt", "salt-looks-like-rounds", L(b"$5$rounds=5000$rounds=6000$"), [0] * 10 + [8] * 4 + [0] + [1] * 11 + [0]),
        ("sha512crypt", "salt-looks-like-rounds", L(b"$6$rounds=5000$rounds=6000$"), [0] * 10 + [8] * 4 + [0] + [1] * 11 + [0]),
        ("sha1crypt", "cost-plus", L(b"$sha1$+12$") + S(8), [0] * 6 + [8] * 3 + [0] + [1] * 8),
        ("sha1crypt", "cost-leading-zeros", L(b"$sha1$0012$") + S(8), [0] * 6 + [8] * 4 + [0] + [1] * 8),
        ("sha1crypt", "cost0", L(b"$sha1$0$") + S(8), [0] * 6 + [8] + [0] + [1] * 8),
        ("sha1crypt", "cost-empty", L(b"$sha1$$") + S(8), [0] * 7 + [1] * 8),
        # F5: the longest salts whose hash still fits the output field (a hash of 340..383 characters used as a setting)
        ("scrypt", "salt300", L(b"$7$CU..../....") + S(300), [0] * 3 + [8] * 11 + [1] * 300),
        ("scrypt", "salt325", L(b"$7$CU..../....") + S(325), [0] * 3 + [8] * 11 + [1] * 325),
    ]
    cells, meta = [], {}
    rows = {G.method_of_row(r): r for r in g["rows"]}
    for method, tag, pat, provs in spec:
        if method not in rows:
            continue
        assert len(pat) == len(provs), (method, tag)
        cid = "E%s#%s" % (method, tag)
        cells.append(K.crypt_cell(cid, entry, b"", setting_bytes=b"", headsets=pat, size=(32768, 32768), align=(0, 0)))
        meta[cid] = {"method": method, "pattern": tuple(pat), "from": "hand-written: " + tag, "row": rows[method], "provs": tuple(provs), "extra": True}
    return cells, meta


def _interpret_kdf(cfg):
    cfg["contracts"].pop("yescrypt_kdf", None)
    cfg["contracts"]["yescrypt_kdf_body"] = [{"op": "read", "ptr": 2, "len": 3}, {"op": "read", "ptr": 4, "len": 5},
                                             {"op": "write", "ptr": 12, "len": 13, "prov": "digest"}, {"op": "ret", "lo": -3, "hi": 0}]


def run_traced(tier="quick"):
    """the composition cells again (two patterns per method in the quick tier), with read tracing of the phrase and the
    setting: per cell, the union over all explored paths of the offsets that loads, digest-contract reads, formatted-copy
    sources and numeric parsers may touch (plain copies into the result are recorded separately, they are an echo)"""
    key = ("traced", tier)
    if key in _CACHE:
        return _CACHE[key]
    g = G.run(tier)
    m, info = common.prog("shared")
    cells, meta = build_cells(m, g, tier)
    if tier == "quick":
        by = {}
        for c in cells:
            by.setdefault(meta[c["id"]]["method"], []).append(c)
        cells = []
        for k, v in sorted(by.items()):
            cells += [v[0]] + ([v[-1]] if len(v) > 1 else [])
    ec, em = extra_cells(m, g)
    cells += ec
    meta.update(em)
    kdf = [e for e in K.CONTRACTS["yescrypt_kdf"] if e.get("op") != "ret"] + [{"op": "ret", "lo": 0, "hi": 0}]
    cfg = K.config(m, {"check_badsalt_chars": [{"op": "ret", "lo": 0, "hi": 0}], "yescrypt_kdf": kdf})
    cfg["track"] = TRACK
    from . import unit_contracts
    for k in unit_contracts.CONTRACTS:
        cfg["contracts"].pop(k, None)
    # yescrypt_kdf itself (parameter checks, the pre-hash of the passphrase for larger costs) is interpreted here; what it
    # calls, yescrypt_kdf_body, is the contract: (passwd, passwdlen) and (salt, saltlen) are read, buf[0..buflen) is written
    _interpret_kdf(cfg)
    cfg["traceRegions"] = ["phrase", "setting"]
    t0 = time.time()
    res = xai.run_cells(info["bc"], cells, cfg, chunk=1)
    out = {"res": res, "meta": meta, "wall": time.time() - t0, "ncells": len(cells)}
    _CACHE[key] = out
    return out



def run_rehash(tier="quick"):
    """second stage: the abstract result H of every traced composition cell (generated setting + digest characters, exact
    positions) is used as the setting of another crypt_rn call, again with read tracing"""
    key = ("rehash", tier)
    if key in _CACHE:
        return _CACHE[key]
    from . import crypt_oracle as O, unit_contracts
    t = run_traced(tier)
    m, info = common.prog("shared")
    entry = common.sym(m, "crypt_rn").name
    cells, meta = [], {}
    for cid, c in sorted(t["res"].items()):
        mt = t["meta"][cid]
        for p in c["paths"]:
            if not p["ret"].startswith("ptr:") or any(a["kind"] in O.HARD for a in p["alarms"]):
                continue
            ok, ln, chars = O.terminated(p)
            if not ok or not (len(p.get("out", [])) > ln and p["out"][ln][0] == frozenset([0])):
                continue
            H = [s_ for s_, pr in chars]
            rid = "R" + cid
            cells.append(K.crypt_cell(rid, entry, b"", setting_bytes=b"", headsets=H, size=(32768, 32768), align=(0, 0)))
            nd = 0
            while nd < ln and chars[ln - 1 - nd][1] == O.P_DIGEST:
                nd += 1
            meta[rid] = {"from": cid, "H": H, "method": mt["method"], "pattern": mt["pattern"], "row": mt["row"], "extra": mt.get("extra", False),
                         "setting_part": min(len(mt["pattern"]), ln - nd) if nd else len(mt["pattern"]),
                         "phr_box": list(p["roots"][0]), "first_reads": c.get("reads", {}), "first_trace": c.get("trace", []),
                         "first_rejections": sorted({p2.get("errno_at", "") for p2 in c["paths"] if p2["ret"] == "null"})}
            break
    kdf = [e for e in K.CONTRACTS["yescrypt_kdf"] if e.get("op") != "ret"] + [{"op": "ret", "lo": 0, "hi": 0}]
    cfg = K.config(m, {"check_badsalt_chars": [{"op": "ret", "lo": 0, "hi": 0}], "yescrypt_kdf": kdf})
    cfg["track"] = TRACK
    for k in unit_contracts.CONTRACTS:
        cfg["contracts"].pop(k, None)
    _interpret_kdf(cfg)     # the same configuration as the first run: the two traces are compared event by event
    cfg["traceRegions"] = ["phrase", "setting"]
    t0 = time.time()
    res = xai.run_cells(info["bc"], cells, cfg, chunk=1)
    out = {"res": res, "meta": meta, "wall": time.time() - t0, "ncells": len(cells), "first": t}
    _CACHE[key] = out
    return out
