"""The crypt grid: crypt_rn analysed by XAI for every table row with an arbitrary phrase and an arbitrary
(filter-clean) setting that starts with the row's prefix; data object of `size` bytes with the field map
of struct crypt_data and an arbitrary base alignment.  Shared by C04 and C06."""
import json, os, time
from . import common, front, xai, unit_contracts
from .report import AnalysisBroken

CLEAN = frozenset(c for c in range(0x21, 0x7f) if chr(c) not in ":;*!\\")
A64 = frozenset(b"./0123456789ABCDEFGHIJKLMNOPQRSTUVWXYZabcdefghijklmnopqrstuvwxyz")


def set_hex(s):
    b = bytearray(32)
    for c in s:
        b[c // 8] |= 1 << (c % 8)
    return b.hex()


def R(ptr, len_=None, size=None):
    e = {"op": "read", "ptr": ptr}   # without len/size: sizeof(pointee)
    if len_ is not None:
        e["len"] = len_
    if size is not None:
        e["size"] = size
    return e


def W(ptr, size=None, len_=None, prov="digest"):
    e = {"op": "write", "ptr": ptr, "prov": prov}
    if size is not None:
        e["size"] = size
    if len_ is not None:
        e["len"] = len_
    return e


def OBJ(ptr):
    return {"op": "write", "ptr": ptr, "prov": "digest"}      # size of pointee


# contracts of the digest / cipher primitives: (ptr,len) arguments are read in [ptr, ptr+len),
# result and context arguments are written for their documented size (context = sizeof pointee, from the IR type).
CONTRACTS = {
    "MD4_Init": [OBJ(0)], "MD4_Update": [OBJ(0), R(1, 2)], "MD4_Final": [W(0, 16), OBJ(1)],
    "MD5_Init": [OBJ(0)], "MD5_Update": [OBJ(0), R(1, 2)], "MD5_Final": [W(0, 16), OBJ(1)],
    "SHA256_Init": [OBJ(0)], "SHA256_Update": [OBJ(0), R(1, 2)], "SHA256_Final": [W(0, 32), OBJ(1)], "SHA256_Buf": [R(0, 1), W(2, 32)],
    "SHA512_Init": [OBJ(0)], "SHA512_Update": [OBJ(0), R(1, 2)], "SHA512_Final": [W(0, 64), OBJ(1)], "SHA512_Buf": [R(0, 1), W(2, 64)],
    "HMAC_SHA256_Init": [OBJ(0), R(1, 2)], "HMAC_SHA256_Update": [OBJ(0), R(1, 2)], "HMAC_SHA256_Final": [W(0, 32), OBJ(1)],
    "HMAC_SHA256_Buf": [R(0, 1), R(2, 3), W(4, 32)],
    "PBKDF2_SHA256": [R(0, 1), R(2, 3), W(5, len_=6)],
    "sha1_init_ctx": [OBJ(0)], "sha1_process_bytes": [R(0, 2), OBJ(1)], "sha1_finish_ctx": [OBJ(0), W(1, 20)],
    "hmac_sha1_process_data": [R(0, 1), R(2, 3), W(4, 20)],
    "GOST34112012_Init": [OBJ(0)], "GOST34112012_Update": [OBJ(0), R(1, 2)], "GOST34112012_Final": [OBJ(0), W(1, 32)], "GOST34112012_Cleanup": [OBJ(0)],
    "gost_hash256": [R(0, 1), W(2, 32), OBJ(3)], "gost_hmac256": [R(0, 1), R(2, 3), W(4, 32), OBJ(5)],
    # struct des_ctx { uint32_t keysl[16], keysr[16]; uint32_t saltbits; }: the key schedule and the salt bits are set separately
    "des_set_key": [W(0, 128), R(1, size=8)], "des_set_salt": [dict(W(0, 4), off=128)], "des_crypt_block": [R(0, size=132), W(1, 8), R(2, size=8)],
    "yescrypt_kdf": [R(2, 3), R(4, 5), R(6), W(7, len_=8), {"op": "ret", "lo": -1, "hi": 0}],
    "check_badsalt_chars": [{"op": "ret", "lo": 0, "hi": 1}],
}
# parsing helpers of yescrypt: contracts that every run verifies against the real bodies (vlib/unit_contracts.py)
CONTRACTS.update(unit_contracts.CONTRACTS)

FIELDS = [("output", 0, 384, True), ("setting", 384, 768, False), ("input", 768, 1280, False),
          ("reserved", 1280, 2047, True), ("initialized", 2047, 2048, True), ("internal", 2048, 32768, True)]


def config(m, extra_contracts=None):
    st = m.structs["struct.crypt_data"]["fields"]
    names = ["output", "setting", "input", "reserved", "initialized", "internal"]
    fields = [{"name": n, "lo": st[i]["off"], "hi": st[i]["off"] + st[i]["size"], "writable": n not in ("setting", "input")} for i, n in enumerate(names)]
    c = dict(CONTRACTS)
    if extra_contracts:
        c.update(extra_contracts)
    return {"reportRegion": "data", "reportLimit": 384, "wsetResetAfter": common.sym(m, "make_failure_token").name, "track": 512, "fields": fields, "contracts": c, "maxPaths": 400000, "maxSteps": 60000000, "maxWallSec": 900,
            "widenAfter": 3, "dedupe": True, "trackInit": True, "frameForkWiden": 0, "ptrWidenAfter": 40, "fmtForkMax": 24, "forkyLoop": 64}


def crypt_cell(cid, entry, prefix, tailset=None, phrase_len=(0, (1 << 31) - 1), setting_extra=(0, (1 << 31) - 1), size=None,
               align=(0, 15), setting_bytes=None, headsets=None):
    """crypt_rn(phrase, setting, data, size)"""
    tailset = CLEAN | {0} if tailset is None else tailset
    roots = [{"name": "phr_len", "lo": phrase_len[0], "hi": phrase_len[1]},
             {"name": "set_len", "lo": len(prefix) + setting_extra[0], "hi": len(prefix) + setting_extra[1]},
             {"name": "size", "lo": size[0] if size else xai.INT_MIN, "hi": size[1] if size else xai.INT_MAX, "prov": "size"},
             {"name": "align", "lo": align[0], "hi": align[1]}]
    regions = [
        {"name": "phrase", "kind": "cstr", "bytes": "", "tail": True, "prov": "phrase", "tailset": set_hex(set(range(0, 256)))},
        {"name": "setting", "kind": "cstr", "bytes": (setting_bytes if setting_bytes is not None else prefix).hex(), "tail": setting_bytes is None, "prov": "setting", "len_root": 1, "tailtrack": 96,
         "tailset": set_hex(tailset)},
        {"name": "data", "kind": "buf", "size_root": 2, "prov": "other", "fieldmap": True, "align_root": 3, "uninit": True},
    ]
    if setting_bytes is not None:
        regions[1].pop("len_root")
    if headsets:
        regions[1]["headsets"] = [set_hex(x) for x in headsets]
    args = [{"ptr": "phrase"}, {"ptr": "setting"}, {"ptr": "data"}, {"root": 2}]
    return {"id": cid, "entry": entry, "roots": roots, "regions": regions, "args": args}


# methods whose crypt path the interpreter cannot yet explore within budget (path explosion in the
# yescrypt parameter/salt parser); they are reported as NOT covered, never as proved
UNCOVERED = {"$gy$": "gost-yescrypt copies the variable-length setting into its scratch area and re-parses yescrypt's result there: string lengths inside the data object need a relational domain (not analysed for arbitrary settings; the composition grid covers it for exact-length generated settings)"}


def build_cells(m, tier):
    tbl = m.hash_table()
    rows = [r for r in tbl["rows"] if r["prefix"] is not None]
    entry = common.sym(m, "crypt_rn").name
    cells, meta = [], {}
    seen = set()
    aligns = [0, 1, 15] if tier == "quick" else list(range(16))

    def add(cid, row, **kw):
        for a in aligns:
            c = crypt_cell("%s@%d" % (cid, a), entry, align=(a, a), **kw)
            cells.append(c)
            meta[c["id"]] = {"prefix": kw.get("prefix", b""), "row": row, "align": a, "base": cid}
    for r in rows:
        p = r["prefix"].encode()
        if p == b"" or p in seen:
            continue
        seen.add(p)
        if r["prefix"] in UNCOVERED:
            continue
        add("K%s" % r["prefix"], r, prefix=p)
    desrow = next((r for r in rows if r["prefix"] == ""), None)
    if desrow is not None:
        # two leading DES-alphabet characters (any of the 64), then an arbitrary clean tail
        add("Kdes", desrow, prefix=b"", tailset=CLEAN | {0}, headsets=[A64, A64], setting_extra=(2, (1 << 31) - 1))
        add("Kempty", desrow, prefix=b"", setting_bytes=b"")
    # unknown method and rejected strings
    add("Kunknown", None, prefix=b"$zz$")
    add("Kstar", None, prefix=b"", setting_bytes=b"*0")
    return cells, meta, rows


_CACHE = {}


def run(tier="quick", only=None, extra_contracts=None):
    key = (tier, tuple(only) if only else None)
    if key in _CACHE:
        return _CACHE[key]
    m, info = common.prog("shared")
    cells, meta, rows = build_cells(m, tier)
    if only:
        cells = [c for c in cells if c["id"] in only or meta[c["id"]]["base"] in only]
    t0 = time.time()
    cache_file = os.path.join(info["dir"], "crypt_grid_%s.json" % tier)
    sig = str(os.path.getmtime(xai.XAI)) + str(os.path.getsize(xai.XAI)) + str(len(cells))
    res = None
    if not only and os.path.exists(cache_file):
        try:
            saved = json.load(open(cache_file))
            if saved.get("sig") == sig:
                res = saved["res"]
                for c in res.values():
                    for p in c["paths"]:
                        if "out" in p:
                            p["out"] = [(frozenset(s_), pr) for s_, pr in p["out"]]
                        p["roots"] = [tuple(x) for x in p["roots"]]
        except Exception:
            res = None
    if res is not None:
        out = {"res": res, "meta": meta, "rows": rows, "module": m, "info": info, "wall": 0.0, "ncells": len(cells), "cached": True}
        _CACHE[key] = out
        return out
    # long cells first so that the pool finishes early
    cells.sort(key=lambda c: 0 if c["id"].startswith(("K_", "K$2", "K$5", "K$6")) else 1)
    cfg = config(m, extra_contracts)
    cfg["maxWallSec"] = 600 if tier == "quick" else 3000      # per cell; a cell that runs out is reported, never silently dropped
    res = xai.run_cells(info["bc"], cells, cfg, chunk=1)
    if not only:
        try:
            ser = {cid: dict(c, paths=[dict(p, out=[(sorted(s_), pr) for s_, pr in p.get("out", [])]) for p in c["paths"]]) for cid, c in res.items()}
            json.dump({"sig": sig, "res": ser}, open(cache_file, "w"))
        except OSError:
            pass
    out = {"res": res, "meta": meta, "rows": rows, "module": m, "info": info, "wall": time.time() - t0, "ncells": len(cells), "cached": False}
    _CACHE[key] = out
    return out
