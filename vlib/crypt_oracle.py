"""Property oracles over the XAI crypt grid (C04, C06)."""
from . import crypt_grid as K, xai
from .report import AnalysisBroken

# results assembled in a scratch buffer whose abstract content is blurred by length ranges: cleanliness not decidable here
CLEAN_UNDECIDED = {"K$7$": "scrypt result is assembled in intbuf->outbuf with range-length copies; byte sets keep the buffer's previous content",
                   "K$y$": "yescrypt result is assembled in intbuf->outbuf with range-length copies; byte sets keep the buffer's previous content (decided for generated settings by X-GEN-SHAPE)"}
HARD = {"W", "R", "NULL", "IDX", "ABORT", "FIELD", "UAF", "FREE", "CALL", "UNINIT"}
SOFT = {"MODEL", "BUDGET"}
OUT = 384

# Documented shape of a successful result per method (crypt.5 "Hashed passphrase format" and the hash-size column;
# the property names 13/60/86/43 itself).  digest = number of encoded digest characters at the end of the result,
# min/max = total length.  Deviations from crypt.5 are noted where its regex is not what the methods' definitions say.
#   digest None: the digest is not produced by a contract primitive (bcrypt: Blowfish is interpreted) - total length decides
#   max None: the method copies a salt of any length from the setting (bounded by the output buffer only)
SHAPE = {
    "K$1$": {"digest": 22, "min": 3 + 0 + 1 + 22, "max": 3 + 8 + 1 + 22},
    "K$2a$": {"digest": None, "min": 60, "max": 60}, "K$2b$": {"digest": None, "min": 60, "max": 60},
    "K$2x$": {"digest": None, "min": 60, "max": 60}, "K$2y$": {"digest": None, "min": 60, "max": 60},
    "K$3$": {"digest": 32, "min": 36, "max": 36},                      # crypt.5 says 256 bits; MD4 is 128 bits = 32 hex digits
    "K$5$": {"digest": 43, "min": 3 + 0 + 1 + 43, "max": 3 + 17 + 16 + 1 + 43},
    "K$6$": {"digest": 86, "min": 3 + 0 + 1 + 86, "max": 3 + 17 + 16 + 1 + 86},
    "K$7$": {"digest": 43, "min": None, "max": None, "digest_undecided": "scrypt result is assembled with range-length copies; provenance positions are blurred"},
    # $y$<flavor,N,r: 1..6 chars each>[<have><p><t><g><NROM>]$<salt: 0..86 chars>$<43>
    "K$y$": {"digest": 43, "min": None, "max": None, "digest_undecided": "yescrypt result is assembled with range-length copies; provenance positions are blurred (decided for generated settings by X-GEN-SHAPE)"},
    "K$gy$": {"digest": 43, "min": None, "max": None, "digest_undecided": "gost-yescrypt is not in the crypt grid; decided for generated settings by X-GEN-SHAPE"},
    "K$md5": {"digest": 22, "min": 4 + 1 + 0 + 1 + 22, "max": None},  # $md5[,rounds=N]$salt$[$]digest ; salt of any length is hashed and echoed
    # crypt.5's regex for sha1crypt asks for 40..96 trailing characters; HMAC-SHA1 (20 bytes, 21 encoded) gives 28
    "K$sha1": {"digest": 28, "min": 6 + 1 + 1 + 0 + 1 + 28, "max": 6 + 10 + 1 + 64 + 1 + 28, "slack": 10,
               "slack_reason": "the merged snprintf model adds the digit-count range of the round count twice"},
    "K_": {"digest": 11, "min": 20, "max": 20},
    "Kdes": {"digest": "11k", "min": 13, "max": 2 + 16 * 11},         # descrypt 13, bigcrypt 2 + 11 per 8-byte block, up to 16 blocks
}
P_DIGEST = 4
HEX = frozenset(b"0123456789abcdef")
DIG = frozenset(b"0123456789")


def lit(b):
    return [frozenset([c]) for c in b]


# positional alphabets of the methods whose whole result is drawn from fixed alphabets (crypt.5 regexes); None = position not constrained here.
# Methods that copy an arbitrary salt ([^$:\n] in crypt.5: md5crypt, sha256crypt, sha512crypt, sunmd5, sha1crypt) and scrypt's salt
# field (checked only up to its first '$' by the library) are not listed position by position: their digest characters are covered below.
ALPHA = {
    "K_": lit(b"_") + [K.A64] * 19,
    "K$2a$": lit(b"$2a$") + [DIG, DIG] + lit(b"$") + [K.A64] * 53, "K$2b$": lit(b"$2b$") + [DIG, DIG] + lit(b"$") + [K.A64] * 53,
    "K$2x$": lit(b"$2x$") + [DIG, DIG] + lit(b"$") + [K.A64] * 53, "K$2y$": lit(b"$2y$") + [DIG, DIG] + lit(b"$") + [K.A64] * 53,
    "K$3$": lit(b"$3$$") + [HEX] * 32,
    "K$7$": lit(b"$7$") + [K.A64] * 11,            # N (1), r (5), p (5)
    "Kdes": [K.A64] * 178,
}


def health(chk, g):
    if len(g["res"]) != g["ncells"] or g["ncells"] < 30:
        raise AnalysisBroken("crypt grid lost cells: %d of %d" % (len(g["res"]), g["ncells"]))
    for cid, c in g["res"].items():
        if c["budget"]:
            chk.deferred.append("XAI path budget exhausted in crypt cell %s" % cid)
            continue
        for p in c["paths"]:
            for a in p["alarms"]:
                if a["kind"] in SOFT:
                    raise AnalysisBroken("XAI cannot analyse %s:%d in cell %s: %s" % (a["fn"], a["line"], cid, a["msg"]))
        if g["meta"][cid]["row"] is not None and g["meta"][cid]["base"] not in ("Kempty",) and not any(p["ret"].startswith("ptr:") for p in c["paths"]):
            m_ = g["meta"][cid]["row"]["crypt"]
            if "bcrypt_x" in m_ or True:
                # every enabled method must have at least one succeeding abstract path, otherwise nothing was proved about it
                raise AnalysisBroken("no succeeding path in crypt cell %s: the method's success path was not explored" % cid)


def terminated(p):
    """(ok, length upper bound, chars)"""
    out = p.get("out", [])
    chars = []
    for s, prov in out:
        if s == frozenset([0]):
            return True, len(chars), chars
        chars.append((s, prov))
    nl, nh = p.get("nul", [-1, -1])
    if nl >= 0 and nh < OUT:
        return True, nh, chars[:nh]
    return False, len(chars), chars


def desc(g, cid):
    mt = g["meta"][cid]
    return "setting=%r+tail align=%d" % (mt["prefix"].decode("latin1"), mt["align"])


def c04(chk, g):
    chk.rule("X-W", "every store / memcpy / memset / modelled libc write lies inside the object it addresses; writes into the data object stay out of `setting` and `input`")
    chk.rule("X-R", "every load / modelled read of a non-string object lies inside it")
    chk.rule("X-IDX", "every index into a declared array stays inside the array")
    chk.rule("X-ABORT", "no path reaches __assert_fail / abort")
    chk.rule("X-INIT", "no load / contract read touches a byte of the data object or of a local that this call has never written (exact addresses only)")
    chk.rule("X-RET", "a non-NULL result is data->output and is NUL-terminated inside the 384-byte output field")
    chk.rule("X-LEAK", "no heap block or mapping created during the call is still live at return")
    for cid, c in sorted(g["res"].items()):
        d = desc(g, cid)
        for p in c["paths"]:
            hard = [a for a in p["alarms"] if a["kind"] in HARD]
            for a in hard:
                rule = {"ABORT": "X-ABORT", "IDX": "X-IDX", "R": "X-R", "UNINIT": "X-INIT"}.get(a["kind"], "X-W")
                chk.fail(rule, "%s@%s:%d|%s" % (a["kind"], a["fn"], a["line"], g["meta"][cid]["base"]),
                         "%s in %s line %d: %s [crypt_rn, %s; size box %s]" % (a["kind"], a["fn"], a["line"], a["msg"], d, list(p["roots"][2])),
                         "%s:%d" % (a["fn"], a["line"]), {"cell": cid, "ret": p["ret"], "roots": p["roots"], "alarms": p["alarms"][:4]})
            if not hard:
                chk.count("X-W", p["nW"])
                chk.count("X-R", p["nR"])
                chk.count("X-IDX", p["nIdx"])
                chk.count("X-ABORT", 1)
                chk.count("X-INIT", p["nR"])
            if p["ret"] == "abort":
                continue
            if p["ret"].startswith("ptr:"):
                ok, n, chars = terminated(p)
                if p["ret"] != "ptr:data+0" or not ok or n >= OUT:
                    chk.fail("X-RET", "ret|%s" % g["meta"][cid]["base"],
                             "crypt_rn returns %s; result %s inside the output field (length bound %s) [%s]" % (p["ret"], "is NUL-terminated" if ok else "is NOT provably NUL-terminated", n, d),
                             "lib/crypt.c", {"cell": cid, "out": xai.show(chars)[:120], "nul": p.get("nul")})
                else:
                    chk.count("X-RET", 1, [cid])
            elif p["ret"] != "null":
                chk.fail("X-RET", "retkind|%s|%s" % (g["meta"][cid]["base"], p["ret"]), "crypt_rn returns %s [%s]" % (p["ret"], d), "lib/crypt.c")
            if p.get("live_heap"):
                chk.fail("X-LEAK", "leak|%s|%s" % (g["meta"][cid]["base"], ",".join(p["live_heap"])), "heap block/mapping %s still live when crypt_rn returns %s [%s]" % (p["live_heap"], p["ret"], d), "lib/", {"cell": cid})
            else:
                chk.count("X-LEAK", 1)
        chk.distinct.add(("cell", cid))


def c06(chk, g):
    chk.rule("X-CLEAN", "every byte of a successful result is printable ASCII without whitespace or : ; * ! \\")
    chk.rule("X-PREFIX", "a successful result starts with the prefix of the setting's method and never with '*'")
    chk.rule("X-LEN", "a successful result is NUL-terminated and shorter than CRYPT_OUTPUT_SIZE")
    chk.rule("X-DIGEST-LEN", "the number of result characters that carry digest provenance (less the blur of the length range) is the method's fixed digest length")
    chk.rule("X-ALPHABET", "every character of a successful result is in the alphabet its position has in the method's documented format (fixed-layout methods), and every digest character is one of ./0-9A-Za-z (hex for NT)")
    chk.rule("X-SHAPE-LEN", "the total length of a successful result lies within the method's documented minimum and maximum (prefix, options, truncated salt, delimiters, digest)")
    shape_seen = set()
    n = 0
    for cid, c in sorted(g["res"].items()):
        mt = g["meta"][cid]
        d = desc(g, cid)
        for p in c["paths"]:
            if not p["ret"].startswith("ptr:"):
                continue
            hard = [a for a in p["alarms"] if a["kind"] in HARD]
            if hard:
                # a write that may leave the output field (or the object) while the result is produced: the result's extent is not
                # established, which is this property's own clause (shorter than CRYPT_OUTPUT_SIZE); other alarm kinds are C04's
                wf = [a for a in hard if a["kind"] in ("W", "FIELD")]
                if wf:
                    a = wf[0]
                    chk.fail("X-LEN", "len|%s|%s@%s:%d" % (mt["base"], a["kind"], a["fn"], a["line"]), "while the result is written, %s line %d: %s - the result is not confined to the %d-byte output field [%s]" % (a["fn"], a["line"], a["msg"], OUT, d), "%s:%d" % (a["fn"], a["line"]), {"cell": cid})
                continue
            n += 1
            ok, ln, chars = terminated(p)
            if not ok or ln >= OUT or ln < 1:
                chk.fail("X-LEN", "len|%s" % mt["base"], "result not provably NUL-terminated within %d bytes [%s]" % (OUT, d), "lib/", {"cell": cid})
                continue
            chk.count("X-LEN", 1)
            shape(chk, mt, p, ln, d, cid, shape_seen)
            allowed = K.CLEAN | {0}
            dirty = [(i, s - allowed) for i, (s, pr) in enumerate(chars) if not s <= allowed]
            if dirty and "wset" in p:
                # positions are blurred by length ranges (weak updates keep the old garbage of the buffer): fall back to the
                # set of all byte values this call wrote into the output field
                wbad = set(p["wset"]) - allowed
                if not wbad:
                    chk.count("X-CLEAN", 1)
                    chk.count("X-CLEAN-AGG", 1, [mt["base"]])
                    dirty = []
                elif mt["base"] in CLEAN_UNDECIDED:
                    chk.distinct.add(("X-CLEAN-undecided", mt["base"]))
                    dirty = []
                else:
                    dirty = [(-1, wbad)]
            # a position that may already be the terminator is allowed to contain NUL; the first byte never
            if dirty or (chars and 0 in chars[0][0] and len(chars[0][0]) < 200):
                i, bad = dirty[0] if dirty else (0, {0})
                chk.fail("X-CLEAN", "dirty|%s|%d" % (mt["base"], i), "byte %d of the result may be one of %s [%s]" % (i, sorted("%#04x" % x for x in bad)[:8], d), "lib/",
                         {"cell": cid, "result": xai.show(chars)[:140]})
            else:
                chk.count("X-CLEAN", len(chars))
            want = mt["prefix"]
            head = bytes(next(iter(s)) for s, pr in chars[:len(want)]) if all(len(s) == 1 for s, pr in chars[:len(want)]) else None
            if want and head != want:
                chk.fail("X-PREFIX", "prefix|%s" % mt["base"], "result starts with %r, the setting's method prefix is %r [%s]" % (xai.show(chars[:len(want)]), want, d), "lib/", {"cell": cid})
            elif ord("*") in chars[0][0] and len(chars[0][0]) < 200:
                chk.fail("X-PREFIX", "star|%s" % mt["base"], "a successful result may start with '*' [%s]" % d, "lib/", {"cell": cid})
            elif not want and not (chars[0][0] <= K.A64 and chars[1][0] <= K.A64 | {0}) and len(chars[0][0]) < 200:
                chk.fail("X-PREFIX", "des|%s" % mt["base"], "DES result does not start with two ./0-9A-Za-z characters [%s]" % d, "lib/", {"cell": cid})
            else:
                chk.count("X-PREFIX", 1)
    if n < 40:
        raise AnalysisBroken("only %d successful abstract paths in the crypt grid" % n)
    missing = {b for b in {m_["base"] for m_ in g["meta"].values() if m_["row"] is not None and m_["base"] != "Kempty"} if b not in shape_seen}
    if missing:
        # (deferred: when the shape could not be looked at because the result is not even terminated, X-LEN has already fired)
        chk.deferred.append("no documented shape evaluated for grid method(s) %s" % sorted(missing))


def shape(chk, mt, p, ln, d, cid, seen):
    sp = SHAPE.get(mt["base"])
    if sp is None:
        return
    seen.add(mt["base"])
    nl, nh = p.get("nul", [-1, -1])
    out = p.get("out", [])
    if nl < 0 or (ln < len(out) and out[ln][0] == frozenset([0])):
        nl = nh = ln        # a definite terminator cell
    where = {"cell": cid, "length_range": [nl, nh], "result": xai.show(out[:nh])[:160]}
    # fixed digest length
    if sp["digest"] is None:
        chk.distinct.add(("X-DIGEST-LEN-by-total-length", mt["base"]))
    elif sp.get("digest_undecided"):
        chk.distinct.add(("X-DIGEST-LEN-undecided", mt["base"]))
    else:
        nd = sum(1 for s_, pr in out[:nh] if pr & P_DIGEST) - (nh - nl)
        good = (nd % 11 == 0 and 11 <= nd <= 176) if sp["digest"] == "11k" else nd == sp["digest"]
        if good:
            chk.count("X-DIGEST-LEN", 1, [mt["base"]])
        else:
            chk.fail("X-DIGEST-LEN", "digest|%s|%d" % (mt["base"], nd), "the result carries %d digest characters, the method's digest has %s [%s]" % (nd, sp["digest"], d), "lib/", where)
    # alphabets
    al = ALPHA.get(mt["base"])
    bad = None
    if al is not None:
        for i, (s_, pr) in enumerate(out[:min(nh, len(al))]):
            extra = s_ - al[i] - (frozenset([0]) if i >= nl else frozenset())
            if extra and len(s_) < 200:
                bad = (i, extra, "position %d of the documented format" % i)
                break
            if extra:
                bad = (i, extra, "position %d of the documented format (unconstrained byte)" % i)
                break
    if bad is None and sp["digest"] is not None and not sp.get("digest_undecided"):
        dal = HEX if mt["base"] == "K$3$" else K.A64
        for i, (s_, pr) in enumerate(out[:nh]):
            if pr == P_DIGEST and (s_ - dal - frozenset([0])) and len(s_) < 200:
                bad = (i, s_ - dal, "digest character at offset %d" % i)
                break
    if bad:
        chk.fail("X-ALPHABET", "alpha|%s|%d" % (mt["base"], bad[0]), "%s may be one of %s [%s]" % (bad[2], sorted(chr(x) if 32 < x < 127 else "\\x%02x" % x for x in bad[1])[:10], d), "lib/", where)
    else:
        chk.count("X-ALPHABET", 1, [mt["base"]])
    # total length
    hi = None if sp["max"] is None else sp["max"] + sp.get("slack", 0)
    if hi is not None and nh > hi:
        chk.fail("X-SHAPE-LEN", "max|%s" % mt["base"], "a successful result can be %d characters long; the method's longest documented hash has %d [%s]" % (nh, sp["max"], d), "lib/", where)
    elif sp["min"] is not None and nl < sp["min"]:
        chk.fail("X-SHAPE-LEN", "min|%s" % mt["base"], "a successful result can be as short as %d characters; the method's shortest hash (empty salt, no options) has %d [%s]" % (nl, sp["min"], d), "lib/", where)
    elif hi is None and sp["min"] is None:
        chk.distinct.add(("X-SHAPE-LEN-undecided", mt["base"]))
    else:
        chk.count("X-SHAPE-LEN", 1, [mt["base"]])
