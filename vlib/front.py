"""FRONT: from /repo's current working tree to analysed LLVM bitcode + facts.

Nothing generated in /repo is trusted: the generated headers are regenerated
with the repo's own perl scripts into a scratch include directory which is
first on the include path.  Units are taken from the Makefile's
libcrypt_la_SOURCES (parsed, never executed) and cross-checked against lib/*.c.
"""
import hashlib, json, os, re, shutil, subprocess, sys, tempfile
from concurrent.futures import ThreadPoolExecutor

REPO = os.environ.get("VERIF_REPO", "/repo")
VERIF = os.path.dirname(os.path.dirname(os.path.abspath(__file__)))
CACHE = os.path.join(VERIF, ".cache")
BUILD = os.path.join(VERIF, "build")
CLANG = "clang-14" if shutil.which("clang-14") else "clang"
LLVM_LINK = "llvm-link-14"
OPT = "opt-14"

# lib/*.c files that are deliberately not translation units of libcrypt.la
NOT_UNITS = {
    "gen-des-tables.c": "build tool that prints alg-des-tables.c",
    "alg-yescrypt-platform.c": "textually #included by alg-yescrypt-opt.c",
}

ALL_HASHES = ["yescrypt", "gost_yescrypt", "scrypt", "bcrypt", "bcrypt_y",
              "bcrypt_a", "bcrypt_x", "sha512crypt", "sha256crypt",
              "sha1crypt", "sunmd5", "md5crypt", "nt", "bsdicrypt",
              "bigcrypt", "descrypt"]


class AnalysisBroken(Exception):
    pass


def parse_makefile(path=None):
    """Tiny Makefile variable reader (no execution). Returns dict of raw
    variable values with continuation lines joined."""
    path = path or os.path.join(REPO, "Makefile")
    if not os.path.exists(path):
        raise AnalysisBroken("no Makefile in %s (tree not configured)" % REPO)
    vars_ = {}
    with open(path, errors="replace") as f:
        text = f.read()
    text = text.replace("\\\n", " ")
    for line in text.split("\n"):
        if line.startswith("\t") or line.startswith("#"):
            continue
        m = re.match(r"^([A-Za-z_][A-Za-z0-9_]*)\s*(\+?=|:=)\s*(.*)$", line)
        if m:
            k, op, v = m.group(1), m.group(2), m.group(3).strip()
            if op == "+=" and k in vars_:
                vars_[k] += " " + v
            else:
                vars_[k] = v
    return vars_


def mk_expand(vars_, s, depth=0):
    if depth > 20:
        return s
    def rep(m):
        name = m.group(1)
        return mk_expand(vars_, vars_.get(name, ""), depth + 1)
    return re.sub(r"\$\(([A-Za-z_][A-Za-z0-9_]*)\)", rep, s)


def units_and_flags():
    mv = parse_makefile()
    srcs = mk_expand(mv, mv.get("libcrypt_la_SOURCES", "")).split()
    if not srcs:
        raise AnalysisBroken("libcrypt_la_SOURCES not found in Makefile")
    srcs = [s for s in srcs if s.endswith(".c")]
    names = {os.path.basename(s) for s in srcs}
    on_disk = {f for f in os.listdir(os.path.join(REPO, "lib")) if f.endswith(".c")}
    unknown = on_disk - names - set(NOT_UNITS)
    # crypt-des-obsolete.c is conditional on ENABLE_OBSOLETE_API
    if unknown - {"crypt-des-obsolete.c"}:
        raise AnalysisBroken("lib/*.c files neither in libcrypt_la_SOURCES nor in the "
                             "exclusion table: %s" % sorted(unknown))
    missing = names - on_disk
    if missing:
        raise AnalysisBroken("units listed in Makefile but absent: %s" % sorted(missing))
    cpp = mk_expand(mv, mv.get("libcrypt_la_CPPFLAGS", "")).split()
    defs = mk_expand(mv, mv.get("DEFS", "-DHAVE_CONFIG_H")).split()
    flags = []
    for f in defs + cpp:
        if f.startswith("-I"):
            p = f[2:]
            if p.startswith("./"):
                p = p[2:]
            flags.append("-I" + os.path.normpath(os.path.join(REPO, p)))
        else:
            flags.append(f)
    params = {
        "hashes_enabled": mv.get("hashes_enabled", ""),
        "SYMVER_MIN": mv.get("SYMVER_MIN", ""),
        "SYMVER_FLOOR": mv.get("SYMVER_FLOOR", ""),
        "COMPAT_ABI": mv.get("COMPAT_ABI", ""),
        "APPLY_SYMVERS": mv.get("APPLY_SYMVERS", "yes"),
    }
    return sorted(srcs), flags, params


def _run(cmd, **kw):
    r = subprocess.run(cmd, stdout=subprocess.PIPE, stderr=subprocess.PIPE, text=True, **kw)
    return r


def gen_headers(dest, params, hashes=None, config_h=None):
    """Regenerate crypt-hashes.h, crypt.h, crypt-symbol-vers.h, libcrypt.map
    into `dest` with the repo's generators."""
    scripts = os.path.join(REPO, "build-aux", "scripts")
    env = dict(os.environ, LC_ALL="C")
    he = params["hashes_enabled"] if hashes is None else "," + ",".join(sorted(hashes)) + ","
    cfg = config_h or os.path.join(REPO, "config.h")
    jobs = [
        ("crypt-hashes.h", ["perl", os.path.join(scripts, "gen-crypt-hashes-h"),
                            os.path.join(REPO, "lib/hashes.conf"), he]),
        ("crypt.h", ["perl", os.path.join(scripts, "gen-crypt-h"),
                     os.path.join(REPO, "lib/crypt.h.in"), cfg,
                     os.path.join(REPO, "lib/hashes.conf"), he]),
        ("crypt-symbol-vers.h", ["perl", os.path.join(scripts, "gen-crypt-symbol-vers-h"),
                                 params["APPLY_SYMVERS"],
                                 "SYMVER_MIN=" + params["SYMVER_MIN"],
                                 "SYMVER_FLOOR=" + params["SYMVER_FLOOR"],
                                 "COMPAT_ABI=" + params["COMPAT_ABI"],
                                 os.path.join(REPO, "lib/libcrypt.map.in")]),
        ("libcrypt.map", ["perl", os.path.join(scripts, "gen-libcrypt-map"),
                          "SYMVER_MIN=" + params["SYMVER_MIN"],
                          "SYMVER_FLOOR=" + params["SYMVER_FLOOR"],
                          "COMPAT_ABI=" + params["COMPAT_ABI"],
                          os.path.join(REPO, "lib/libcrypt.map.in")]),
    ]
    for name, cmd in jobs:
        r = _run(cmd, env=env, cwd=REPO)
        if r.returncode != 0:
            raise AnalysisBroken("generator for %s failed: %s" % (name, r.stderr.strip()[:500]))
        with open(os.path.join(dest, name), "w") as f:
            f.write(r.stdout)
    shutil.copy(cfg, os.path.join(dest, "config.h"))


def input_digest(extra=""):
    h = hashlib.sha256()
    h.update(extra.encode())
    paths = []
    for d in ("lib", "build-aux/scripts"):
        for f in sorted(os.listdir(os.path.join(REPO, d))):
            if f.endswith((".o", ".lo")) or f == "gen-des-tables" or f.startswith("."):
                continue
            paths.append(os.path.join(REPO, d, f))
    paths += [os.path.join(REPO, "config.h"), os.path.join(REPO, "Makefile"),
              os.path.join(BUILD, "irfacts")]
    for p in paths:
        if os.path.isfile(p):
            h.update(p.encode())
            with open(p, "rb") as f:
                h.update(hashlib.sha256(f.read()).digest())
    return h.hexdigest()[:24]


BASE_CFLAGS = ["-O0", "-g", "-fno-discard-value-names", "-Xclang", "-disable-O0-optnone",
               "-std=gnu11", "-w", "-emit-llvm", "-c"]


def shadow_config(src, dest, undef=(), define=None):
    """Copy config.h with some macros removed / set (the shadow-config mechanism)."""
    define = define or {}
    out = []
    with open(src) as f:
        for line in f:
            m = re.match(r"\s*#\s*define\s+([A-Za-z0-9_]+)", line)
            if m and (m.group(1) in undef or m.group(1) in define):
                continue
            out.append(line)
    for k, v in define.items():
        out.append("#define %s %s\n" % (k, v))
    with open(dest, "w") as f:
        f.writelines(out)


def build(flavour="shared", hashes=None, symver_asm=False, cfg_undef=(), cfg_define=None,
          want_facts=True, outdir=None, keep_units=False):
    """Build the analysed program. Returns dict with paths: dir, bc (linked, SSA),
    facts (json path), units, flags, params, incdir."""
    srcs, flags, params = units_and_flags()
    params = dict(params)
    if hashes is not None and "descrypt" not in hashes:
        # configure.ac: without descrypt the obsolete APIs are implicitly disabled
        # (--enable-obsolete-api=no: COMPAT_ABI=no, ENABLE_OBSOLETE_API 0, crypt-des-obsolete.c not built)
        params["COMPAT_ABI"] = "no"
        cfg_define = dict(cfg_define or {})
        cfg_define["ENABLE_OBSOLETE_API"] = "0"
        srcs = [x for x in srcs if not x.endswith("crypt-des-obsolete.c")]
    key = "%s|%s|%s|%s|%s|v6" % (flavour, ",".join(sorted(hashes)) if hashes is not None else "-",
                              symver_asm, ",".join(cfg_undef), json.dumps(cfg_define or {}, sort_keys=True))
    dig = input_digest(key)
    out = outdir or os.path.join(CACHE, dig)
    info_path = os.path.join(out, "info.json")
    if os.path.exists(info_path):
        with open(info_path) as f:
            info = json.load(f)
        if (not want_facts) or os.path.exists(info.get("facts", "")):
            return info
    os.makedirs(out, exist_ok=True)
    inc = os.path.join(out, "inc")
    os.makedirs(inc, exist_ok=True)
    cfg_src = os.path.join(REPO, "config.h")
    undef = list(cfg_undef)
    if symver_asm:
        undef.append("HAVE_FUNC_ATTRIBUTE_SYMVER")
    if undef or cfg_define:
        shadow = os.path.join(out, "config.shadow.h")
        shadow_config(cfg_src, shadow, undef, cfg_define)
        cfg_src = shadow
    gen_headers(inc, params, hashes, cfg_src)
    cflags = BASE_CFLAGS + ["-I" + inc] + flags
    if flavour == "shared":
        cflags += ["-fPIC", "-DPIC"]
    objdir = os.path.join(out, "units")
    os.makedirs(objdir, exist_ok=True)

    def cc(src):
        o = os.path.join(objdir, os.path.basename(src)[:-2] + ".bc")
        r = _run([CLANG] + cflags + [os.path.join(REPO, src), "-o", o])
        return src, o, r
    with ThreadPoolExecutor(16) as ex:
        res = list(ex.map(cc, srcs))
    errs = [(s, r.stderr) for s, o, r in res if r.returncode != 0]
    if errs:
        info = {"dir": out, "compile_errors": [(s, e[:2000]) for s, e in errs]}
        return info
    objs = [o for s, o, r in res]
    linked = os.path.join(out, "linked.bc")
    r = _run([LLVM_LINK] + objs + ["-o", linked])
    if r.returncode != 0:
        return {"dir": out, "link_errors": r.stderr[:4000]}
    ssa = os.path.join(out, "ssa.bc")
    r = _run([OPT, "-passes=sroa,mem2reg", linked, "-o", ssa])
    if r.returncode != 0:
        raise AnalysisBroken("opt failed: " + r.stderr[:1000])
    enabled = sorted(hashes) if hashes is not None else sorted(x for x in params["hashes_enabled"].strip(",").split(",") if x)
    info = {"dir": out, "bc": ssa, "linked": linked, "units": srcs, "flags": flags,
            "params": params, "incdir": inc, "flavour": flavour,
            "unit_bc": objs, "enabled": enabled}
    if want_facts:
        facts = os.path.join(out, "facts.json")
        irf = os.path.join(BUILD, "irfacts")
        if not os.path.exists(irf):
            raise AnalysisBroken("build/irfacts missing: run setup (make -C /verif/src)")
        with open(facts, "w") as f:
            r = subprocess.run([irf, ssa], stdout=f, stderr=subprocess.PIPE, text=True)
        if r.returncode != 0:
            raise AnalysisBroken("irfacts failed: " + r.stderr[:1000])
        info["facts"] = facts
    os.remove(linked) if False else None
    with open(info_path, "w") as f:
        json.dump(info, f)
    prune_cache()
    return info


def prune_cache(keep=80):
    try:
        ents = [os.path.join(CACHE, d) for d in os.listdir(CACHE)]
        ents = [e for e in ents if os.path.isdir(e)]
        ents.sort(key=lambda e: os.path.getmtime(e), reverse=True)
        for e in ents[keep:]:
            shutil.rmtree(e, ignore_errors=True)
    except OSError:
        pass


if __name__ == "__main__":
    import time
    t = time.time()
    i = build(sys.argv[1] if len(sys.argv) > 1 else "shared")
    print(json.dumps({k: v for k, v in i.items() if k not in ("unit_bc",)}, indent=1)[:3000])
    print("wall", time.time() - t)
