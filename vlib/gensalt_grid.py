"""The gensalt grid: every (prefix class, nrbytes class) cell of crypt_gensalt_rn analysed by XAI with
count and output_size as interval roots (forking/concretisation makes the per-path boxes exact).
Shared by C10, C11, C12, C13."""
import json, os, re, time
from . import common, front, xai
from .report import AnalysisBroken
from .props.c18 import read_hashes_conf

SAFE = frozenset(c for c in range(0x21, 0x7f) if chr(c) not in ":;*!\\")
A64 = frozenset(b"./0123456789ABCDEFGHIJKLMNOPQRSTUVWXYZabcdefghijklmnopqrstuvwxyz")
ITOA64 = b"./0123456789ABCDEFGHIJKLMNOPQRSTUVWXYZabcdefghijklmnopqrstuvwxyz"

COUNT_POINTS = [0, 1, 2, 3, 4, 5, 6, 7, 11, 12, 31, 32, 99, 100, 724, 725, 726, 999, 1000, 1001, 4999, 5000, 5001, 9999, 10000,
                32767, 32768, 32769, 99999, 100000, 262143, 262144, 262145, 999999, 1000000, 9999999, 10000000,
                16777214, 16777215, 16777216, 99999999, 100000000, 999999998, 999999999, 1000000000,
                4294901759, 4294901760, 4294963199, 4294967294, 4294967295, 4294967296, (1 << 63) - 1, 1 << 63, (1 << 64) - 2, (1 << 64) - 1]


def build_cells(m, tier):
    tbl = m.hash_table()
    rows = [r for r in tbl["rows"] if r["prefix"] is not None]
    entry = common.sym(m, "crypt_gensalt_rn").name
    cells, meta = [], {}
    prefixes = []
    seen = set()
    for r in rows:
        if r["prefix"] not in seen and r["prefix"] != "":
            prefixes.append((r["prefix"].encode(), False, r))
            seen.add(r["prefix"])
    desrow = next((r for r in rows if r["prefix"] == ""), None)
    nr_hi = 80 if tier == "quick" else 200
    nrclasses = [(n, n) for n in range(0, nr_hi + 1)] + [(nr_hi + 1, 255), (256, xai.INT_MAX)]

    def add(cid, prefix, nr, null_rb=False, tail=False, count=(0, xai.ULONG_MAX), kind="", row=None):
        cells.append(xai.gensalt_cell(cid, entry, prefix, nr, rbytes_null=null_rb, prefix_tail=tail, count=count))
        meta[cid] = {"prefix": prefix, "nrbytes": nr, "null_rbytes": null_rb, "tail": tail, "count": count, "kind": kind,
                     "row": row}
    for pb, _, r in prefixes:
        tag = pb.decode()
        for nr in nrclasses:
            add("P%s|n%d-%d" % (tag, nr[0], nr[1]), pb, nr, kind="exact", row=r)
        add("P%s|auto" % tag, pb, (0, 0), null_rb=True, kind="auto", row=r)
        add("P%s|tail" % tag, pb, (r["nrbytes"], r["nrbytes"]), tail=True, kind="tail", row=r)
        for c in COUNT_POINTS:
            add("P%s|c%d" % (tag, c), pb, (max(16, r["nrbytes"]), max(16, r["nrbytes"])), count=(c, c), kind="point", row=r)
    if desrow is not None:
        for name, pb in (("empty", b""), ("des", b"ab")):
            for nr in nrclasses:
                add("D%s|n%d-%d" % (name, nr[0], nr[1]), pb, nr, kind="exact", row=desrow)
            add("D%s|auto" % name, pb, (0, 0), null_rb=True, kind="auto", row=desrow)
            for c in (0, 1, 25, xai.ULONG_MAX):
                add("D%s|c%d" % (name, c), pb, (2, 2), count=(c, c), kind="point", row=desrow)
        add("Ddes|tail", b"ab", (2, 2), tail=True, kind="tail", row=desrow)
    # NULL prefix -> preferred method
    for nr in ((0, 0), (15, 15), (16, 16), (64, 64), (65, 255)):
        add("N|n%d-%d" % nr, None, nr, kind="null")
    add("N|auto", None, (0, 0), null_rb=True, kind="null-auto")
    # unknown / invalid prefixes
    for name, pb in (("zz", b"$zz$"), ("star", b"*"), ("star0", b"*0"), ("dollar", b"$"), ("onechar", b"a"), ("badsecond", b"a$")):
        add("U%s" % name, pb, (16, 16), kind="unknown")
    add("Uany", b"", (16, 16), tail=True, kind="anystring")
    return cells, meta, rows


_CACHE = {}


def run(tier="quick"):
    key = tier
    if key in _CACHE:
        return _CACHE[key]
    m, info = common.prog("shared")
    cache_file = os.path.join(info["dir"], "gensalt_grid_%s.json" % tier)
    cells, meta, rows = build_cells(m, tier)
    t0 = time.time()
    xai_bin_sig = str(os.path.getmtime(xai.XAI)) + str(os.path.getsize(xai.XAI))
    res = None
    if os.path.exists(cache_file):
        try:
            with open(cache_file) as f:
                saved = json.load(f)
            if saved.get("sig") == xai_bin_sig and saved.get("ncells") == len(cells):
                res = saved["res"]
                for c in res.values():
                    for p in c["paths"]:
                        if "out" in p:
                            p["out"] = [(frozenset(s), pr) for s, pr in p["out"]]
                        p["roots"] = [tuple(x) for x in p["roots"]]
        except Exception:
            res = None
    cached = res is not None
    if res is None:
        cfg = {"reportRegion": "output", "track": 512, "maxPaths": 50000, "maxWallSec": 300 if tier == "quick" else 1500}
        res = xai.run_cells(info["bc"], cells, cfg)
        try:
            ser = {}
            for cid, c in res.items():
                c2 = dict(c)
                c2["paths"] = [dict(p, out=[(sorted(s), pr) for s, pr in p.get("out", [])]) for p in c["paths"]]
                ser[cid] = c2
            with open(cache_file, "w") as f:
                json.dump({"sig": xai_bin_sig, "ncells": len(cells), "res": ser}, f)
        except OSError:
            pass
    out = {"res": res, "meta": meta, "rows": rows, "module": m, "info": info, "wall": time.time() - t0, "cached": cached,
           "ncells": len(cells)}
    _CACHE[key] = out
    return out


def path_string(p):
    chars, term = xai.out_string(p.get("out", []))
    return chars, term


def is_success(p):
    return p["ret"].startswith("ptr:")


def decode_a64(ch):
    return ITOA64.index(ch)


def definite(chars):
    """bytes if every char is a singleton else None"""
    b = bytearray()
    for s, prov in chars:
        if len(s) != 1:
            return None
        b.append(next(iter(s)))
    return bytes(b)


# ---- documented cost function (doc/crypt.5 + crypt_gensalt(3), as quoted in the property) ----------
def doc_cost(method, count):
    """returns ('EINVAL',) or ('ok', spec) for a concrete count; spec describes what the setting must encode"""
    if method in ("sha256crypt", "sha512crypt"):
        if count == 0:
            return ("ok", {"rounds": None})          # default: field omitted (5000)
        c = min(max(count, 1000), 999999999)
        return ("ok", {"rounds": None if c == 5000 else c, "rounds_val": c})
    if method in ("md5crypt", "nt", "descrypt", "bigcrypt"):
        return ("ok", {}) if count == 0 else ("EINVAL",)
    if method in ("bcrypt", "bcrypt_a", "bcrypt_y"):
        if count == 0:
            return ("ok", {"cost": 5})
        return ("ok", {"cost": count}) if 4 <= count <= 31 else ("EINVAL",)
    if method == "bcrypt_x":
        return ("EINVAL",)
    if method in ("yescrypt", "gost_yescrypt"):
        if count == 0:
            count = 5
        return ("ok", {"ylog": count}) if 1 <= count <= 11 else ("EINVAL",)
    if method == "scrypt":
        if count == 0:
            count = 7
        return ("ok", {"slog": count}) if 6 <= count <= 11 else ("EINVAL",)
    if method == "bsdicrypt":
        c = 725 if count == 0 else min(count, 0xffffff)
        return ("ok", {"bsdi": c | 1})
    if method == "sunmd5":
        # clamped count plus 16 random bits, never above the documented maximum 4,294,963,199 (crypt(5))
        c = min(max(count, 32768), 4294967295 - 65536)
        return ("ok", {"window": (c, min(c + 65535, 4294963199))})
    if method == "sha1crypt":
        c = 262144 if count == 0 else min(max(count, 4), 4294967295)
        return ("ok", {"window": (c - (c // 4) + 1, c)})
    raise KeyError(method)


def method_of_row(row):
    return re.sub(r"^_crypt_gensalt_(.*)_rn$", r"\1", row["gensalt"])
