"""Property oracles over the XAI gensalt grid (C10, C11, C12, C13)."""
import re
from . import gensalt_grid as G, xai, common
from .report import AnalysisBroken

EINVAL, ERANGE = 22, 34
HARD = {"W", "R", "NULL", "IDX", "ABORT", "FIELD", "UAF", "FREE", "CALL"}
SOFT = {"MODEL", "BUDGET"}


def boxes_overlap(a, b):
    return a[0] <= b[1] and b[0] <= a[1]


def cell_desc(meta, cid):
    mt = meta[cid]
    return "prefix=%r%s nrbytes=%s%s" % (None if mt["prefix"] is None else mt["prefix"].decode("latin1"),
                                         "+tail" if mt["tail"] else "", "NULL(auto)" if mt["null_rbytes"] else list(mt["nrbytes"]),
                                         "" if mt["count"] == (0, xai.ULONG_MAX) else " count=%d" % mt["count"][0])


def where(p):
    for a in p["alarms"]:
        return "%s:%d" % (a["fn"], a["line"])
    return "lib/crypt.c"


def engine_health(chk, g):
    for cid, c in g["res"].items():
        if c["budget"]:
            # the paths explored so far are still examined (a violation on them is real); without one the run is broken
            chk.deferred.append("XAI path budget exhausted in cell %s" % cid)
            continue
        for p in c["paths"]:
            for a in p["alarms"]:
                if a["kind"] in SOFT:
                    raise AnalysisBroken("XAI cannot model %s:%d (%s) in cell %s" % (a["fn"], a["line"], a["msg"], cid))
    if g["ncells"] < 1000 or len(g["res"]) != g["ncells"]:
        raise AnalysisBroken("gensalt grid lost cells: %d of %d" % (len(g["res"]), g["ncells"]))


def expected_token(outbox):
    lo, hi = outbox
    if lo >= 3:
        return b"*0"
    if lo == hi == 2:
        return b"*"
    if lo == hi == 1:
        return b""
    return None


def c13(chk, g):
    meta = g["meta"]
    R = "X-"
    chk.rule("X-W", "every write of crypt_gensalt_rn and its callees lies inside [0, output_size) of the caller's buffer / inside its own locals")
    chk.rule("X-ABORT", "no path reaches __assert_fail / abort")
    chk.rule("X-ERR", "a NULL return has stored errno EINVAL or ERANGE")
    chk.rule("X-TOK", "a NULL return leaves the failure token (*0, * or empty as size permits); nothing written for sizes <= 0")
    chk.rule("X-LEN", "a non-NULL return is the buffer, NUL-terminated, with length < output_size")
    chk.rule("X-MONO", "success is monotone in output_size for fixed (prefix, count, nrbytes)")
    chk.rule("X-192", "CRYPT_GENSALT_OUTPUT_SIZE (192) bytes never give ERANGE for nrbytes <= 64")
    chk.rule("X-NONINTERF", "no byte of a generated setting depends on output_size")
    nobl = 0
    for cid, c in g["res"].items():
        mt = meta[cid]
        cd = cell_desc(meta, cid)
        for pi, p in enumerate(c["paths"]):
            cnt, nrb, osz = p["roots"][:3]
            box = "count=[%d,%d] output_size=[%d,%d]" % (cnt[0], cnt[1], osz[0], osz[1])
            hard = [a for a in p["alarms"] if a["kind"] in HARD]
            for a in hard:
                rule = "X-ABORT" if a["kind"] == "ABORT" else "X-W"
                chk.fail(rule, "%s@%s:%d|%s" % (a["kind"], a["fn"], a["line"], mt["prefix"] if mt["prefix"] is None else mt["prefix"].decode("latin1")),
                         "%s in %s line %d: %s [first cell: %s; %s]" % (a["kind"], a["fn"], a["line"], a["msg"], cd, box),
                         "%s:%d" % (a["fn"], a["line"]), {"cell": cid, "path": {k: p[k] for k in ("ret", "roots", "errno", "alarms")}})
            if not hard:
                chk.count("X-W", p["nW"] + p["nIdx"])
                chk.count("X-ABORT", 1)
            if p["ret"] == "abort":
                continue
            chars, term = G.path_string(p)
            if p["ret"] == "null":
                if p["errno"] is None or p["errno"] == "any" or not all(e in (EINVAL, ERANGE) for e in range(p["errno"][0], p["errno"][1] + 1)) or p["errno"][1] - p["errno"][0] > 20:
                    chk.fail("X-ERR", "%s|%s" % (cid.split("|")[0], p["errno"]), "NULL return with errno %s (must be EINVAL or ERANGE) [%s; %s]" % (p["errno"], cd, box), "lib/crypt.c",
                             {"cell": cid})
                else:
                    chk.count("X-ERR", 1)
                if osz[1] <= 0:
                    if p["wrote"]:
                        chk.fail("X-TOK", "write-at-nonpositive-size|%s" % cid.split("|")[0], "output written although output_size <= 0 [%s; %s]" % (cd, box), "lib/crypt.c")
                    else:
                        chk.count("X-TOK", 1)
                else:
                    want = expected_token(osz)
                    got = G.definite(chars) if term else None
                    if want is None or got != want:
                        chk.fail("X-TOK", "token|%s|%s" % (cid.split("|")[0], xai.show(chars)),
                                 "failing return leaves %r in the buffer, expected the failure token %r [%s; %s]" % (xai.show(chars) if term else "unterminated " + xai.show(chars), want, cd, box),
                                 "lib/crypt.c", {"cell": cid})
                    else:
                        chk.count("X-TOK", 1)
            elif G.is_success(p):
                ok = p["ret"] == "ptr:output+0" and term and len(chars) < max(osz[0], 1) and len(chars) > 0
                if not ok:
                    chk.fail("X-LEN", "len|%s|%d" % (cid.split("|")[0], len(chars)),
                             "success returns %s with a %s string of %d chars while output_size >= %d [%s; %s]" % (p["ret"], "terminated" if term else "unterminated", len(chars), osz[0], cd, box),
                             "lib/crypt.c", {"cell": cid})
                else:
                    chk.count("X-LEN", 1)
                if any(pr & xai.P_SIZE for s, pr in chars):
                    chk.fail("X-NONINTERF", "size-dep|%s" % cid.split("|")[0], "a byte of the generated setting is computed from output_size [%s]" % cd, "lib/crypt.c")
                else:
                    chk.count("X-NONINTERF", 1)
            else:
                chk.fail("X-LEN", "ret|%s|%s" % (cid.split("|")[0], p["ret"]), "crypt_gensalt_rn returns %s [%s]" % (p["ret"], cd), "lib/crypt.c")
        # monotonicity and the 192 rule inside one cell
        succ = [p for p in c["paths"] if G.is_success(p)]
        fail = [p for p in c["paths"] if p["ret"] == "null"]
        bad = None
        # boxes are exact only when nrbytes is a point (or auto) and the prefix is fully known
        exact_cell = (mt["null_rbytes"] or mt["nrbytes"][0] == mt["nrbytes"][1]) and not mt["tail"]
        for s in (succ if exact_cell else []):
            for f in fail:
                if boxes_overlap(s["roots"][0], f["roots"][0]) and boxes_overlap(s["roots"][1], f["roots"][1]) and f["roots"][2][1] >= s["roots"][2][0]:
                    bad = (s, f)
                    break
            if bad:
                break
        if bad:
            s, f = bad
            chk.fail("X-MONO", "mono|%s" % cid.split("|")[0],
                     "success at output_size %d but failure (errno %s) at the larger size %d for the same inputs [%s; count box %s]"
                     % (s["roots"][2][0], f["errno"], f["roots"][2][1], cd, list(s["roots"][0])), "lib/crypt.c", {"cell": cid})
        else:
            chk.count("X-MONO", max(1, len(succ) * len(fail)), [cid])
        if not mt["null_rbytes"] and mt["nrbytes"][1] <= 64 or mt["null_rbytes"]:
            badp = [f for f in fail if f["errno"] not in (None, "any") and f["errno"][0] <= ERANGE <= f["errno"][1] and f["roots"][2][1] >= 192]
            if badp:
                chk.fail("X-192", "erange192|%s" % cid.split("|")[0], "ERANGE with a buffer of %d >= 192 bytes [%s]" % (badp[0]["roots"][2][1], cd), "lib/crypt.c", {"cell": cid})
            else:
                chk.count("X-192", 1, [cid])
    chk.samples.append({"rule": "X-W", "instance": "cell " + next(iter(g["res"])), "detail": "see coverage.cells"})


def row_for_cell(g, mt):
    """table row the cell's prefix selects (first match semantics), or None for unknown"""
    if mt["row"] is not None:
        return mt["row"]
    return None


def c10(chk, g):
    meta = g["meta"]
    chk.rule("X-CLEAN", "every byte of a generated setting is printable ASCII without whitespace or : ; * ! \\")
    chk.rule("X-TAG", "the setting starts with the prefix of the selected method (DES: two ./0-9A-Za-z characters)")
    chk.rule("X-LEN192", "with nrbytes <= 64 the setting is shorter than CRYPT_GENSALT_OUTPUT_SIZE")
    chk.rule("X-DET", "every byte of the setting is a function of (prefix, count, random bytes) only")
    chk.rule("X-UNKNOWN", "unknown / invalid prefixes never succeed; NULL prefix selects the preferred method")
    pref = None
    m = g["module"]
    from .props.c18 import read_hashes_conf
    enabled = set(g["info"]["enabled"])
    for c in read_hashes_conf():
        if c["name"] in enabled and "DEFAULT" in c["flags"]:
            pref = c["prefix"]
            break
    nsucc = 0
    for cid, c in g["res"].items():
        mt = meta[cid]
        cd = cell_desc(meta, cid)
        for p in c["paths"]:
            if not G.is_success(p):
                continue
            nsucc += 1
            chars, term = G.path_string(p)
            dirty = [(i, s) for i, (s, pr) in enumerate(chars) if not s <= G.SAFE]
            if dirty or not term:
                i, s = dirty[0] if dirty else (len(chars), frozenset())
                chk.fail("X-CLEAN", "dirty|%s|%d" % (cid.split("|")[0], i), "byte %d of the generated setting may be one of %s [%s]"
                         % (i, sorted(chr(x) if 32 < x < 127 else "\\x%02x" % x for x in (s - G.SAFE))[:8], cd), "lib/", {"cell": cid, "setting": xai.show(chars)})
            else:
                chk.count("X-CLEAN", len(chars))
            # tag
            if mt["kind"] in ("unknown",):
                chk.fail("X-UNKNOWN", "succeeds|%s" % cid, "crypt_gensalt_rn succeeds for the unknown prefix %r with %s" % (mt["prefix"], xai.show(chars)), "lib/crypt.c")
                continue
            want = None
            if mt["kind"].startswith("null"):
                want = pref
                if want is None:
                    chk.fail("X-UNKNOWN", "null-no-default", "NULL prefix succeeds although no default method is enabled", "lib/crypt.c")
                    continue
            elif mt["row"] is not None:
                want = mt["row"]["prefix"]
            if want is not None:
                head = G.definite(chars[:len(want)])
                if want == "":
                    ok = len(chars) >= 2 and chars[0][0] <= G.A64 and chars[1][0] <= G.A64
                else:
                    ok = head == want.encode()
                if not ok:
                    chk.fail("X-TAG", "tag|%s" % cid.split("|")[0], "setting %s does not start with the selected method's prefix %r [%s]" % (xai.show(chars), want, cd), "lib/", {"cell": cid})
                else:
                    chk.count("X-TAG", 1)
            if (mt["null_rbytes"] or mt["nrbytes"][1] <= 64) and len(chars) >= 192:
                chk.fail("X-LEN192", "len192|%s" % cid.split("|")[0], "setting of %d chars for nrbytes <= 64 [%s]" % (len(chars), cd), "lib/")
            else:
                chk.count("X-LEN192", 1)
            allowed = xai.P_RBYTES | xai.P_COUNT | xai.P_SETTING
            odd = [(i, pr) for i, (s, pr) in enumerate(chars) if pr & ~allowed]
            if odd:
                chk.fail("X-DET", "prov|%s|%d" % (cid.split("|")[0], odd[0][0]), "byte %d of the setting has provenance %#x (uninitialised memory / output_size / other) [%s]" % (odd[0][0], odd[0][1], cd), "lib/", {"cell": cid, "setting": xai.show(chars)})
            else:
                chk.count("X-DET", len(chars))
            if mt["null_rbytes"]:
                ent = [e for e in p["events"] if e.get("k") == "entropy"]
                want_n = mt["row"]["nrbytes"] if mt["row"] else None
                if len(ent) != 1 or (want_n is not None and not (int(ent[0]["lo"]) == int(ent[0]["hi"]) == want_n)):
                    chk.fail("X-DET", "entropy|%s" % cid.split("|")[0], "auto-entropy path draws %s (expected exactly the method's %s bytes from the OS)" % (ent, want_n), "lib/crypt.c")
                else:
                    chk.count("X-DET", 1)
        if mt["kind"] == "unknown":
            chk.count("X-UNKNOWN", 1, [cid])
    # tail cells: a full hash/setting selects the method of its leading tag: same success set as the exact prefix
    for cid, mt in meta.items():
        if mt["kind"] != "tail":
            continue
        s = [p for p in g["res"][cid]["paths"] if G.is_success(p)]
        if not s:
            # bcrypt_x never succeeds
            if G.method_of_row(mt["row"]) == "bcrypt_x":
                continue
            chk.fail("X-TAG", "tail|%s" % cid, "a longer setting starting with %r does not select the method (no success path)" % mt["prefix"], "lib/crypt.c")
        else:
            chk.count("X-TAG", 1, [cid])
    if nsucc < 1000:
        raise AnalysisBroken("only %d success paths in the gensalt grid" % nsucc)


def decode_setting(method, s):
    """decode the cost fields of a definite setting string (bytes)"""
    t = s.decode("latin1")
    if method in ("sha256crypt", "sha512crypt"):
        mm = re.match(r"^\$[56]\$(?:rounds=(\d+)\$)?", t)
        return {"rounds": int(mm.group(1)) if mm and mm.group(1) else None}
    if method.startswith("bcrypt"):
        mm = re.match(r"^\$2[abxy]\$(\d\d)\$", t)
        return {"cost": int(mm.group(1))} if mm else {}
    if method in ("yescrypt", "gost_yescrypt"):
        mm = re.match(r"^\$g?y\$(.)(.)(.)\$", t)
        if not mm:
            return {}
        flav, nl, r = mm.group(1), G.ITOA64.index(ord(mm.group(2))) + 1, G.ITOA64.index(ord(mm.group(3))) + 1
        return {"flavor": flav, "N_log2": nl, "r": r}
    if method == "scrypt":
        mm = re.match(r"^\$7\$(.)(.{5})(.{5})", t)
        if not mm:
            return {}
        dec = lambda x: sum(G.ITOA64.index(ord(ch)) << (6 * i) for i, ch in enumerate(x))
        return {"N_log2": G.ITOA64.index(ord(mm.group(1))), "r": dec(mm.group(2)), "p": dec(mm.group(3))}
    if method == "bsdicrypt":
        if len(t) >= 5 and t[0] == "_":
            return {"bsdi": sum(G.ITOA64.index(ord(ch)) << (6 * i) for i, ch in enumerate(t[1:5]))}
    return {}


def c11(chk, g):
    meta = g["meta"]
    chk.rule("X-COST-EXACT", "for concrete counts the generated setting encodes exactly the documented cost")
    chk.rule("X-COST-RANGE", "for every count interval the printed/encoded cost stays inside the documented range")
    chk.rule("X-COST-ACCEPT", "the set of accepted counts equals the documented one; rejected counts fail with EINVAL without writing")
    for cid, c in g["res"].items():
        mt = meta[cid]
        if mt["row"] is None or mt["kind"] == "tail":
            continue
        method = G.method_of_row(mt["row"])
        cd = cell_desc(meta, cid)
        for p in c["paths"]:
            cnt, nrb, osz = p["roots"][:3]
            if osz[1] < 192:
                continue       # cost questions are asked for documented buffer sizes; small sizes are C13's
            chars, term = G.path_string(p)
            lo_doc, hi_doc = G.doc_cost(method, cnt[0]), G.doc_cost(method, cnt[1])
            if cnt[0] == cnt[1]:
                cval = cnt[0]
                doc = lo_doc
                inst = "%s|count=%d" % (method, cval)
                if doc[0] == "EINVAL":
                    if G.is_success(p):
                        chk.fail("X-COST-ACCEPT", inst, "%s: count %d must be rejected with EINVAL but yields %s" % (method, cval, xai.show(chars)), "lib/", {"cell": cid})
                    elif p["ret"] == "null" and p["errno"] not in (None, "any") and p["errno"] == [EINVAL, EINVAL]:
                        chk.ok("X-COST-ACCEPT", inst)
                    elif p["ret"] == "null":
                        # may also legitimately be a too-short nrbytes EINVAL/ERANGE; only errno matters
                        if p["errno"] in (None, "any") or p["errno"][0] != EINVAL:
                            # ERANGE before EINVAL is allowed only if the buffer is too small, which is excluded above
                            chk.fail("X-COST-ACCEPT", inst, "%s: count %d rejected with errno %s, documented EINVAL" % (method, cval, p["errno"]), "lib/", {"cell": cid})
                    continue
                if not G.is_success(p):
                    # accepted count may still fail for nrbytes reasons (EINVAL) in cells with small nrbytes
                    if mt["kind"] == "point":
                        chk.fail("X-COST-ACCEPT", inst, "%s: documented count %d fails with errno %s [%s]" % (method, cval, p["errno"], cd), "lib/", {"cell": cid})
                    continue
                spec = doc[1]
                s = G.definite(chars[:min(len(chars), 24)]) if chars else None
                # only the cost fields need to be definite
                dec = {}
                try:
                    k = 0
                    while k < len(chars) and len(chars[k][0]) == 1:
                        k += 1
                    dec = decode_setting(method, G.definite(chars[:k]))
                except Exception:
                    dec = {}
                ok, why = True, ""
                if "rounds" in spec and "rounds_val" not in spec:
                    ok = dec.get("rounds", "x") is None
                    why = "default must omit the rounds field"
                elif "rounds_val" in spec:
                    want = spec["rounds_val"]
                    ok = dec.get("rounds") == want or (want == 5000 and dec.get("rounds", "x") is None)
                    why = "rounds=%s, documented %d" % (dec.get("rounds"), want)
                elif "cost" in spec:
                    ok = dec.get("cost") == spec["cost"]
                    why = "cost field %s, documented %d" % (dec.get("cost"), spec["cost"])
                elif "ylog" in spec:
                    cc = spec["ylog"]
                    ok = dec.get("flavor") == "j" and dec.get("N_log2") is not None and (1 << dec["N_log2"]) * dec["r"] == 1 << (cc + 12) and dec["r"] in (8, 32)
                    why = "decoded %s, documented N*r = 2^%d" % (dec, cc + 12)
                elif "slog" in spec:
                    cc = spec["slog"]
                    ok = dec.get("N_log2") == cc + 7 and dec.get("r") == 32 and dec.get("p") == 1
                    why = "decoded %s, documented N=2^%d r=32 p=1" % (dec, cc + 7)
                elif "bsdi" in spec:
                    ok = dec.get("bsdi") == spec["bsdi"]
                    why = "count field %s, documented %d" % (dec.get("bsdi"), spec["bsdi"])
                elif "window" in spec:
                    ev = [e for e in p["events"] if e.get("k") == "fmtint"]
                    ok = len(ev) == 1 and int(ev[0]["lo"]) >= spec["window"][0] and int(ev[0]["hi"]) <= spec["window"][1]
                    why = "printed rounds in %s, documented window %s" % ([(e["lo"], e["hi"]) for e in ev], list(spec["window"]))
                if ok:
                    chk.ok("X-COST-EXACT", inst, sample={"method": method, "count": cval, "setting": xai.show(chars), "decoded": dec})
                else:
                    chk.fail("X-COST-EXACT", inst, "%s: count %d gives %s: %s" % (method, cval, xai.show(chars), why), "lib/", {"cell": cid})
                continue
            # interval boxes
            inst = "%s|count=[%d,%d]" % (method, cnt[0], cnt[1])
            if G.is_success(p):
                if lo_doc[0] == "EINVAL" or hi_doc[0] == "EINVAL":
                    chk.fail("X-COST-ACCEPT", inst, "%s accepts counts in [%d,%d], part of which must be rejected" % (method, cnt[0], cnt[1]), "lib/", {"cell": cid, "setting": xai.show(chars)})
                    continue
                ev = [e for e in p["events"] if e.get("k") == "fmtint"]
                ok = True
                why = ""
                if method in ("sha256crypt", "sha512crypt"):
                    want = (lo_doc[1].get("rounds_val", 5000), hi_doc[1].get("rounds_val", 5000))
                    for e in ev:
                        if int(e["lo"]) < want[0] or int(e["hi"]) > want[1]:
                            ok, why = False, "printed rounds in [%s,%s], documented [%d,%d]" % (e["lo"], e["hi"], want[0], want[1])
                    if not ev and not (cnt[0] <= 5000 <= cnt[1]):
                        ok, why = False, "rounds field missing for non-default counts"
                elif method == "sunmd5":
                    for e in ev:
                        if int(e["lo"]) < lo_doc[1]["window"][0] or int(e["hi"]) > hi_doc[1]["window"][1]:
                            ok, why = False, "printed rounds in [%s,%s], documented window [%d,%d]" % (e["lo"], e["hi"], lo_doc[1]["window"][0], hi_doc[1]["window"][1])
                elif method == "sha1crypt":
                    for e in ev:
                        if int(e["hi"]) > hi_doc[1]["window"][1]:
                            ok, why = False, "printed iterations up to %s, documented maximum %d" % (e["hi"], hi_doc[1]["window"][1])
                elif method == "bsdicrypt":
                    # count field = 4 chars; odd => first char has bit 0 set
                    if len(chars) >= 5:
                        first = chars[1][0]
                        if any(G.ITOA64.index(x) % 2 == 0 for x in first if x in G.ITOA64):
                            ok, why = False, "iteration count may be even"
                if ok:
                    chk.ok("X-COST-RANGE", inst)
                else:
                    chk.fail("X-COST-RANGE", inst, "%s: %s [%s]" % (method, why, cd), "lib/", {"cell": cid})
            elif p["ret"] == "null" and p["errno"] == [EINVAL, EINVAL] and mt["kind"] == "exact" and mt["nrbytes"][0] >= 16 and mt["nrbytes"][1] <= 64:
                # a whole interval of counts rejected: none of them may be documented as valid
                if lo_doc[0] != "EINVAL" or hi_doc[0] != "EINVAL":
                    chk.fail("X-COST-ACCEPT", inst, "%s rejects counts [%d,%d] with EINVAL although %d is documented as valid" % (method, cnt[0], cnt[1], cnt[0] if lo_doc[0] != "EINVAL" else cnt[1]), "lib/", {"cell": cid})
                else:
                    chk.ok("X-COST-ACCEPT", inst)
    chk.floor("X-COST-EXACT", 200)


SALT_BITS = {"descrypt": 12, "bigcrypt": 12, "bsdicrypt": 24, "md5crypt": 48, "sunmd5": 48, "sha1crypt": 72, "sha256crypt": 96,
             "sha512crypt": 96, "bcrypt": 128, "bcrypt_a": 128, "bcrypt_y": 128, "scrypt": 128, "yescrypt": 128, "gost_yescrypt": 128}
MIN_SALT_BITS = {"descrypt": 12, "bigcrypt": 12, "bsdicrypt": 24, "md5crypt": 6, "sunmd5": 48, "sha1crypt": 6, "sha256crypt": 6,
                 "sha512crypt": 6, "bcrypt": 128, "bcrypt_a": 128, "bcrypt_y": 128, "scrypt": 128, "yescrypt": 128, "gost_yescrypt": 128}


def salt_chars(chars):
    return sum(1 for s, pr in chars if pr & xai.P_RBYTES and s <= G.A64)


def c12(chk, g):
    meta = g["meta"]
    chk.rule("X-SALT>=1", "no successful path of a salted method yields a setting without random-derived characters")
    chk.rule("X-SALTMIN", "the salt is never smaller than the minimum crypt(5) documents for the method")
    chk.rule("X-SALTSTD", "with >= 16 random bytes and a 192-byte buffer the salt has at least the method's standard size")
    chk.rule("X-SHORT-EINVAL", "too few random bytes for any salt => EINVAL (never a weaker or salt-less setting)")
    chk.rule("X-AUTO", "rbytes == NULL draws exactly the method's nrbytes from the OS CSPRNG and then succeeds")
    chk.rule("X-RBYTES-BOUND", "the salt is derived from the nrbytes bytes the caller supplied and from nothing beyond them")
    for cid, c in g["res"].items():
        bad = sorted({(a["fn"], a["line"], a["msg"]) for p in c["paths"] for a in p["alarms"] if a["kind"] == "R" and " rbytes[" in a["msg"]})
        for fn, line, msg in bad[:1]:
            chk.fail("X-RBYTES-BOUND", "%s:%d|%s" % (fn, line, cid.split("|")[0]), "%s line %d reads beyond the random bytes it was given: %s [cell %s] - part of the salt then comes from whatever follows the caller's buffer" % (fn, line, msg, cid), "%s:%d" % (fn, line), {"cell": cid})
        if not bad:
            chk.count("X-RBYTES-BOUND", 1)
    for cid, c in g["res"].items():
        mt = meta[cid]
        if mt["row"] is None:
            continue
        method = G.method_of_row(mt["row"])
        if method in ("nt", "bcrypt_x"):
            continue
        cd = cell_desc(meta, cid)
        for p in c["paths"]:
            cnt, nrb, osz = p["roots"][:3]
            if not G.is_success(p):
                continue
            chars, term = G.path_string(p)
            n = salt_chars(chars)
            inst = "%s|%s" % (method, cid.split("|", 1)[1] if "|" in cid else cid)
            if n < 1:
                chk.fail("X-SALT>=1", inst, "%s: setting %s carries no random-derived salt character [%s; output_size box %s]" % (method, xai.show(chars), cd, list(osz)), "lib/", {"cell": cid})
                continue
            chk.count("X-SALT>=1", 1)
            if osz[0] >= 192:
                if n * 6 < MIN_SALT_BITS[method]:
                    chk.fail("X-SALTMIN", inst, "%s: salt of %d chars (%d bits) below the documented minimum %d bits [%s]" % (method, n, n * 6, MIN_SALT_BITS[method], cd), "lib/", {"cell": cid})
                else:
                    chk.count("X-SALTMIN", 1)
                enough = mt["null_rbytes"] or mt["nrbytes"][0] >= 16
                if enough:
                    bits = min(n * 6, 128) if method.startswith("bcrypt") and n * 6 >= 128 else n * 6
                    if bits < SALT_BITS[method]:
                        chk.fail("X-SALTSTD", inst, "%s: with >= 16 random bytes the salt has %d chars (%d bits), standard size is %d bits [%s]" % (method, n, n * 6, SALT_BITS[method], cd), "lib/", {"cell": cid, "setting": xai.show(chars)})
                    else:
                        chk.count("X-SALTSTD", 1)
        # too-short random input
        if mt["kind"] == "exact" and mt["nrbytes"][1] * 8 < MIN_SALT_BITS[method] and mt["nrbytes"][1] < 2:
            if any(G.is_success(p) for p in c["paths"]):
                chk.fail("X-SHORT-EINVAL", "%s|n%d" % (method, mt["nrbytes"][1]), "%s succeeds with only %d random bytes" % (method, mt["nrbytes"][1]), "lib/")
            else:
                big = [p for p in c["paths"] if p["roots"][2][1] >= 192 and p["ret"] == "null"]
                if any(p["errno"] != [EINVAL, EINVAL] for p in big if p["roots"][0][0] == 0 == p["roots"][0][1] or True) and False:
                    pass
                chk.count("X-SHORT-EINVAL", 1, [cid])
        if mt["kind"] == "auto":
            ok = [p for p in c["paths"] if G.is_success(p)]
            if not ok:
                chk.fail("X-AUTO", method, "%s: crypt_gensalt_rn with rbytes == NULL never succeeds (hashes.conf nrbytes=%d too small for the method?)" % (method, mt["row"]["nrbytes"]), "lib/hashes.conf")
            else:
                bad = [p for p in ok if not any(e.get("k") == "entropy" and e.get("src") == "arc4random_buf" for e in p["events"])]
                if bad:
                    chk.fail("X-AUTO", method + ":src", "%s: auto-entropy path does not draw from the OS CSPRNG" % method, "lib/util-get-random-bytes.c")
                else:
                    chk.ok("X-AUTO", method, sample={"method": method, "draws": mt["row"]["nrbytes"]})
    # every cell where success happens with fewer random bytes than the minimum salt needs is caught above via salt_chars
    chk.floor("X-SALT>=1", 500)
