"""Rule kit over irfacts JSON: module/function model, CFG, dominators,
post-dominators, resolved call graph, derived-pointer closure, path search
with correlated-branch pruning."""
import json, collections, sys

sys.setrecursionlimit(100000)


class Inst(object):
    __slots__ = ("d", "id", "op", "ty", "ops", "line", "file", "block", "idx", "fn")

    def __init__(self, d, block, idx, fn):
        self.d = d
        self.id = d["id"]
        self.op = d["op"]
        self.ty = d.get("ty")
        self.ops = d.get("ops", [])
        self.line = d.get("line", 0)
        self.file = d.get("file", "")
        self.block = block
        self.idx = idx
        self.fn = fn

    def get(self, k, default=None):
        return self.d.get(k, default)

    @property
    def callee(self):
        return self.d.get("callee")

    @property
    def is_call(self):
        return self.op in ("call", "invoke")

    def loc(self):
        f = self.file or self.fn.file or "?"
        return "%s:%d" % (f, self.line)

    def __repr__(self):
        return "<%s %%%d %s @%s>" % (self.op, self.id, self.d.get("callee", ""), self.loc())


def is_v(o):
    return o[0] == "v"


def is_c(o):
    return o[0] == "c"


def cval(o, signed=False):
    """constant int value of an operand or None"""
    if o[0] == "c":
        v, w = o[1], o[2]
        if isinstance(v, str):
            v = int(v)
        if signed and v >= 1 << (w - 1):
            v -= 1 << w
        return v
    if o[0] == "n":
        return 0
    return None


class Function(object):
    def __init__(self, d, module):
        self.d = d
        self.m = module
        self.name = d["name"]
        self.file = d.get("file", "")
        self.line = d.get("line", 0)
        self.linkage = d["linkage"]
        self.params = d["params"]
        self.nparams = len(self.params)
        self.blocks = {}      # bid -> list of Inst
        self.bnames = {}
        self.insts = {}       # id -> Inst
        self.order = []       # block ids in layout order
        for b in d["blocks"]:
            lst = []
            for i, ins in enumerate(b["insts"]):
                I = Inst(ins, b["id"], i, self)
                lst.append(I)
                self.insts[I.id] = I
            self.blocks[b["id"]] = lst
            self.bnames[b["id"]] = b["name"]
            self.order.append(b["id"])
        self.dbgnames = {int(k): v for k, v in d.get("dbgnames", {}).items()}
        self.succ = {}
        self.pred = collections.defaultdict(list)
        for bid, lst in self.blocks.items():
            t = lst[-1]
            ss = list(t.d.get("succs", []))
            # de-duplicate keeping order
            seen = []
            for s in ss:
                if s not in seen:
                    seen.append(s)
            self.succ[bid] = seen
            for s in seen:
                self.pred[s].append(bid)
        self.entry = self.order[0]
        self._users = None
        self._dom = None
        self._pdom = None

    # ---- naming helpers
    def vname(self, vid):
        if vid < self.nparams:
            return self.params[vid]["name"] or ("arg%d" % vid)
        if vid in self.dbgnames:
            return self.dbgnames[vid]
        I = self.insts.get(vid)
        if I is not None and I.d.get("name"):
            return I.d["name"]
        return "%%%d" % vid

    def param_id(self, name):
        for p in self.params:
            if p["name"] == name:
                return p["id"]
        return None

    def all_insts(self):
        for bid in self.order:
            for I in self.blocks[bid]:
                yield I

    def calls(self, callee=None):
        for I in self.all_insts():
            if I.is_call and (callee is None or I.callee == callee or
                              (isinstance(callee, (set, frozenset, tuple, list)) and I.callee in callee)):
                yield I

    def rets(self):
        return [I for I in self.all_insts() if I.op == "ret"]

    def terminator(self, bid):
        return self.blocks[bid][-1]

    # ---- def-use
    def users(self, vid):
        if self._users is None:
            u = collections.defaultdict(list)
            for I in self.all_insts():
                for o in self._all_operands(I):
                    for v in _vids(o):
                        u[v].append(I)
            self._users = u
        return self._users.get(vid, [])

    @staticmethod
    def _all_operands(I):
        for o in I.ops:
            yield o
        if I.op == "phi":
            for o, b in I.d["inc"]:
                yield o
        if I.is_call and I.d.get("target"):
            yield I.d["target"]

    # ---- dominators (Cooper-Harvey-Kennedy)
    def _compute_dom(self, entry, succ, pred):
        order = []
        seen = set()
        stack = [(entry, iter(succ.get(entry, [])))]
        seen.add(entry)
        while stack:
            n, it = stack[-1]
            adv = False
            for s in it:
                if s not in seen:
                    seen.add(s)
                    stack.append((s, iter(succ.get(s, []))))
                    adv = True
                    break
            if not adv:
                order.append(n)
                stack.pop()
        rpo = list(reversed(order))
        num = {n: i for i, n in enumerate(rpo)}
        idom = {entry: entry}
        changed = True
        while changed:
            changed = False
            for n in rpo[1:]:
                ps = [p for p in pred.get(n, []) if p in idom]
                if not ps:
                    continue
                new = ps[0]
                for p in ps[1:]:
                    a, b = p, new
                    while a != b:
                        while num[a] > num[b]:
                            a = idom[a]
                        while num[b] > num[a]:
                            b = idom[b]
                    new = a
                if idom.get(n) != new:
                    idom[n] = new
                    changed = True
        return idom

    def dom(self):
        if self._dom is None:
            self._dom = self._compute_dom(self.entry, self.succ, self.pred)
        return self._dom

    def pdom(self):
        """post-dominator tree over blocks; virtual exit = -1, connected from
        every block ending in `ret`."""
        if self._pdom is None:
            rsucc = collections.defaultdict(list)   # reversed graph: succ = preds
            rpred = collections.defaultdict(list)
            for b, ss in self.succ.items():
                for s in ss:
                    rsucc[s].append(b)
                    rpred[b].append(s)
            for b, lst in self.blocks.items():
                if lst[-1].op == "ret":
                    rsucc[-1].append(b)
                    rpred[b].append(-1)
            self._pdom = self._compute_dom(-1, rsucc, rpred)
        return self._pdom

    def block_dominates(self, a, b):
        idom = self.dom()
        if b not in idom:
            return True     # unreachable block: vacuous
        while True:
            if a == b:
                return True
            nb = idom[b]
            if nb == b:
                return False
            b = nb

    def block_postdominates(self, a, b):
        """a post-dominates b (every path from b to a return passes a)"""
        idom = self.pdom()
        if b not in idom:
            return True     # b cannot reach a return: vacuous
        while True:
            if a == b:
                return True
            nb = idom[b]
            if nb == b:
                return False
            b = nb

    def dominates(self, A, B):
        """instruction A dominates instruction B"""
        if A.block == B.block:
            return A.idx <= B.idx
        return self.block_dominates(A.block, B.block)

    def postdominates(self, A, B):
        if A.block == B.block:
            return A.idx >= B.idx
        return self.block_postdominates(A.block, B.block)

    def reachable_blocks(self, frm=None):
        frm = self.entry if frm is None else frm
        seen = {frm}
        st = [frm]
        while st:
            n = st.pop()
            for s in self.succ[n]:
                if s not in seen:
                    seen.add(s)
                    st.append(s)
        return seen

    def edge_dominates(self, src, dst, B):
        """Does the CFG edge src->dst dominate instruction/block B? i.e. every
        path from entry to B uses this edge. True iff dst dominates B and all
        preds of dst other than src are dominated by dst (back edges) -- we use
        the simple sufficient condition: dst dominates B and dst's only
        non-dominated predecessor is src."""
        bb = B.block if isinstance(B, Inst) else B
        if not self.block_dominates(dst, bb):
            return False
        for p in self.pred[dst]:
            if p != src and not self.block_dominates(dst, p):
                return False
        return True

    # ---- derived-pointer closure
    def based_on(self, roots, through_loads=False):
        """set of value ids derived from the root ids through
        gep/bitcast/phi/select/ptrtoint/inttoptr/add/sub (pointer arithmetic)."""
        out = set(roots)
        work = list(roots)
        while work:
            v = work.pop()
            for U in self.users(v):
                if U.op in ("getelementptr", "bitcast", "addrspacecast"):
                    if _has_vid(U.ops[0], v) and U.id not in out:
                        out.add(U.id); work.append(U.id)
                elif U.op in ("phi", "select", "ptrtoint", "inttoptr"):
                    if U.op == "select" and _has_vid(U.ops[0], v) and not (_has_vid(U.ops[1], v) or _has_vid(U.ops[2], v)):
                        continue
                    if U.id not in out:
                        out.add(U.id); work.append(U.id)
                elif U.op in ("add", "sub", "and", "or") and U.ty in ("i64",):
                    # pointer arithmetic on integers (ptrtoint'ed)
                    if U.id not in out and v in out and self.insts.get(v) is not None and \
                            (self.insts[v].op in ("ptrtoint", "add", "sub", "and", "or")):
                        out.add(U.id); work.append(U.id)
        return out

    def strip_casts(self, o):
        """look through bitcasts / zero-offset geps of an operand"""
        while True:
            if o[0] == "v":
                I = self.insts.get(o[1])
                if I is not None and I.op == "bitcast":
                    o = I.ops[0]; continue
                if I is not None and I.op == "getelementptr" and I.d.get("cpart") == 0 and not I.d.get("vpart"):
                    o = I.ops[0]; continue
            elif o[0] == "e" and o[1] in ("bitcast",):
                o = o[2][0]; continue
            elif o[0] == "e" and o[1] == "getelementptr" and len(o) > 3 and o[3] == 0:
                o = o[2][0]; continue
            return o


def _vids(o):
    if o[0] == "v":
        yield o[1]
    elif o[0] == "e":
        for x in o[2]:
            for v in _vids(x):
                yield v


def _has_vid(o, v):
    for x in _vids(o):
        if x == v:
            return True
    return False


def operand_globals(o):
    """names of globals/functions referenced by an operand (through constexprs)"""
    if o[0] in ("g", "f"):
        yield (o[0], o[1])
    elif o[0] == "e":
        for x in o[2]:
            for r in operand_globals(x):
                yield r


class Module(object):
    def __init__(self, facts_path):
        with open(facts_path) as f:
            d = json.load(f)
        self.d = d
        self.path = facts_path
        self.functions = {}
        self.decls = {}
        for fd in d["functions"]:
            if fd["decl"]:
                self.decls[fd["name"]] = fd
            else:
                self.functions[fd["name"]] = Function(fd, self)
        self.globals = {g["name"]: g for g in d["globals"]}
        self.aliases = {a["name"]: a["aliasee"] for a in d["aliases"]}
        self.structs = d["structs"]
        self.module_asm = d["module_asm"]
        self._cg = None
        self._addr_taken = None

    def fn(self, name):
        name = self.aliases.get(name, name)
        return self.functions.get(name)

    def resolve(self, name):
        return self.aliases.get(name, name)

    def global_bytes(self, name):
        g = self.globals[name]
        if g.get("init") is None:
            return None
        return bytes.fromhex(g["init"])

    def cstring(self, name):
        b = self.global_bytes(name)
        if b is None:
            return None
        i = b.find(b"\0")
        return b[:i] if i >= 0 else b

    def operand_cstring(self, o):
        """if operand is (a constexpr gep/bitcast of) a constant string global return bytes"""
        off = 0
        while o[0] == "e":
            if o[1] == "getelementptr":
                off += o[3] if len(o) > 3 else 0
            o = o[2][0]
        if o[0] == "g" and o[1] in self.globals and self.globals[o[1]]["const"]:
            b = self.global_bytes(o[1])
            if b is None:
                return None
            b = b[off:]
            i = b.find(b"\0")
            return b[:i] if i >= 0 else b
        return None

    # ---- address-taken functions and call graph
    def address_taken(self):
        """functions whose address is used other than as a direct callee:
        in global initializers (relocs) or as a non-callee operand."""
        if self._addr_taken is None:
            at = collections.defaultdict(list)
            for g in self.d["globals"]:
                for r in g.get("relocs", []) or []:
                    if r[3] == "f":
                        at[self.resolve(r[1])].append(("global", g["name"]))
            for F in self.functions.values():
                for I in F.all_insts():
                    for o in F._all_operands(I):
                        for k, n in operand_globals(o):
                            if k == "f":
                                at[self.resolve(n)].append(("inst", F.name, I.id))
                            elif k == "g" and n in self.aliases and self.aliases[n] in self.functions:
                                at[self.aliases[n]].append(("inst", F.name, I.id))
            self._addr_taken = at
        return self._addr_taken

    def callgraph(self):
        """fn name -> set of callee names (defined or declared). Indirect calls
        are resolved by function type against address-taken defined functions."""
        if self._cg is None:
            at = self.address_taken()
            by_type = collections.defaultdict(set)
            for n in at:
                if n in self.functions:
                    by_type[self.functions[n].d["fty"]].add(n)
            cg = {}
            self.indirect_sites = []
            for F in self.functions.values():
                s = set()
                for I in F.all_insts():
                    if not I.is_call:
                        continue
                    if I.callee is not None:
                        s.add(self.resolve(I.callee))
                    elif I.d.get("asm") is not None:
                        s.add("<asm:%s>" % I.d["asm"])
                    else:
                        tg = by_type.get(I.d["fty"], set())
                        self.indirect_sites.append((F.name, I, sorted(tg)))
                        s |= tg
                        if not tg:
                            s.add("<indirect-unresolved:%s>" % I.d["fty"])
                cg[F.name] = s
            self._cg = cg
        return self._cg

    def reach(self, roots):
        cg = self.callgraph()
        seen = set()
        st = [self.resolve(r) for r in roots]
        while st:
            n = st.pop()
            if n in seen:
                continue
            seen.add(n)
            for c in cg.get(n, ()):
                if c not in seen:
                    st.append(c)
        return seen

    def global_refs(self):
        """global name -> list of (function, inst, kind) where kind in
        load/store/call-arg/other (direct use of the global's address)"""
        refs = collections.defaultdict(list)
        for F in self.functions.values():
            for I in F.all_insts():
                for pos, o in enumerate(F._all_operands(I)):
                    for k, n in operand_globals(o):
                        if k == "g":
                            refs[n].append((F.name, I, pos))
        return refs

    # ---- hash table
    def hash_table(self, gname=None):
        """decode the hash_algorithms table -> rows of dicts"""
        cands = [g for g in self.d["globals"] if g["ty"].startswith("[") and "struct.hashfn" in g["ty"]]
        if not cands:
            return None
        g = cands[0]
        st = self.structs["struct.hashfn"]
        b = bytes.fromhex(g["init"])
        rel = {r[0]: r for r in g["relocs"]}
        rows = []
        n = g["size"] // st["size"]
        for i in range(n):
            base = i * st["size"]
            fo = [f["off"] for f in st["fields"]]
            pr = rel.get(base + fo[0])
            prefix = None
            if pr:
                pb = self.global_bytes(pr[1])
                pb = pb[pr[2]:]
                prefix = pb[:pb.find(b"\0")].decode("latin1")
            plen = int.from_bytes(b[base + fo[1]: base + fo[1] + 8], "little")
            cr = rel.get(base + fo[2])
            gr = rel.get(base + fo[3])
            rows.append({"prefix": prefix, "plen": plen,
                         "crypt": cr[1] if cr else None, "gensalt": gr[1] if gr else None,
                         "nrbytes": b[base + fo[4]], "is_strong": b[base + fo[5]]})
        return {"global": g["name"], "rows": rows}


# --------------------------------------------------------------------------
# path search with correlated-branch pruning

_NEG = {"eq": "ne", "ne": "eq", "ult": "uge", "uge": "ult", "ugt": "ule", "ule": "ugt",
        "slt": "sge", "sge": "slt", "sgt": "sle", "sle": "sgt"}
_SWAP = {"eq": "eq", "ne": "ne", "ult": "ugt", "ugt": "ult", "ule": "uge", "uge": "ule",
         "slt": "sgt", "sgt": "slt", "sle": "sge", "sge": "sle"}


def _okey(o):
    if o[0] == "v":
        return ("v", o[1])
    if o[0] == "c":
        return ("c", int(o[1]), o[2])
    if o[0] == "n":
        return ("c", 0, 64)
    return ("x", json.dumps(o))


def _eval_pred(pred, a, b, w):
    def s(x):
        return x - (1 << w) if x >= 1 << (w - 1) else x
    return {"eq": a == b, "ne": a != b, "ult": a < b, "ule": a <= b, "ugt": a > b, "uge": a >= b,
            "slt": s(a) < s(b), "sle": s(a) <= s(b), "sgt": s(a) > s(b), "sge": s(a) >= s(b)}[pred]


# implication table: fact (p holds) contradicts query (q holds)?
_CONTRA = {
    "eq": {"ne", "ult", "ugt", "slt", "sgt"},
    "ne": {"eq"},
    "ult": {"eq", "ugt", "uge"}, "ugt": {"eq", "ult", "ule"},
    "ule": {"ugt"}, "uge": {"ult"},
    "slt": {"eq", "sgt", "sge"}, "sgt": {"eq", "slt", "sle"},
    "sle": {"sgt"}, "sge": {"slt"},
}


class PathState(object):
    """facts accumulated along a path: list of (pred, akey, bkey) known true,
    and phi resolutions (phi id -> chosen incoming operand)."""
    __slots__ = ("facts", "phis", "memfacts")

    def __init__(self, facts=(), phis=None):
        self.facts = list(facts)
        self.phis = dict(phis or {})

    def copy(self):
        return PathState(self.facts, self.phis)


class PathFinder(object):
    """DFS over a function's CFG for a path start -> goal that avoids
    `blockers`, pruning continuations whose branch condition contradicts one
    taken earlier on the same path.  Blocks are visited at most `revisit`
    times per path."""

    def __init__(self, fn, const_ret=None, max_paths=200000):
        self.fn = fn
        self.const_ret = const_ret or {}     # callee -> constant return value
        self.max_steps = max_paths
        self.steps = 0

    def resolve(self, o, st):
        """look through phis resolved on this path, casts of bools, and
        calls to constant-returning callees"""
        fn = self.fn
        for _ in range(50):
            if o[0] != "v":
                return o
            I = fn.insts.get(o[1])
            if I is None:
                return o
            if I.id in st.phis:
                o = st.phis[I.id]
                continue
            if I.op in ("zext", "sext", "trunc", "freeze"):
                so = self.resolve(I.ops[0], st)
                if so[0] == "c":
                    v = int(so[1])
                    w = I.d.get("bits", 64)
                    if I.op == "sext":
                        sw = so[2]
                        if v >= 1 << (sw - 1):
                            v -= 1 << sw
                    return ["c", v & ((1 << w) - 1), w]
                return o
            if I.is_call and I.callee in self.const_ret:
                return ["c", self.const_ret[I.callee], I.d.get("bits", 32)]
            return o
        return o

    def cond_truth(self, o, st, depth=0):
        """evaluate a boolean operand under path facts: True/False/None, plus
        the atom (pred,a,b) it represents when undecided."""
        o = self.resolve(o, st)
        if o[0] == "c":
            return (int(o[1]) != 0), None
        if o[0] != "v" or depth > 8:
            return None, None
        I = self.fn.insts.get(o[1])
        if I is None:
            return None, ("ne", ("v", o[1]), ("c", 0, 1))
        if I.op == "icmp":
            a = self.resolve(I.ops[0], st)
            b = self.resolve(I.ops[1], st)
            if str(self.fn.insts[I.id].d.get("cbits")) == "64" or True:
                a2, b2 = self.fn.strip_casts(a), self.fn.strip_casts(b)
                # pointer comparisons: compare the underlying objects
                if a2 != a or b2 != b:
                    a, b = self.resolve(a2, st), self.resolve(b2, st)
            pred = I.d["pred"]
            w = I.d.get("cbits", 64)
            if a[0] in ("c", "n") and b[0] in ("c", "n"):
                return _eval_pred(pred, cval(a) or 0, cval(b) or 0, w), None
            # icmp ne (zext/… bool), 0  -> truth of inner bool
            if b[0] in ("c", "n") and (cval(b) or 0) == 0 and pred in ("ne", "eq") and a[0] == "v":
                J = self.fn.insts.get(a[1])
                if J is not None and J.op in ("zext", "sext") and J.d.get("sty") == "i1":
                    t, atom = self.cond_truth(J.ops[0], st, depth + 1)
                    if pred == "eq":
                        if t is not None:
                            t = not t
                        if atom is not None:
                            atom = (_NEG[atom[0]], atom[1], atom[2])
                    return t, atom
            ka, kb = _okey(a), _okey(b)
            if ka == kb and ka[0] == "v":
                return pred in ("eq", "ule", "uge", "sle", "sge"), None
            if ka[0] == "c" and kb[0] != "c":
                ka, kb, pred = kb, ka, _SWAP[pred]
            atom = (pred, ka, kb)
            return self._lookup(atom, st), atom
        if I.op == "xor" and I.ty == "i1":
            for i in (0, 1):
                c = cval(I.ops[i])
                if c == 1:
                    t, atom = self.cond_truth(I.ops[1 - i], st, depth + 1)
                    if t is not None:
                        t = not t
                    if atom is not None:
                        atom = (_NEG[atom[0]], atom[1], atom[2])
                    return t, atom
        if I.op == "trunc" and I.ty == "i1":
            a = self.resolve(I.ops[0], st)
            atom = ("ne", _okey(a), ("c", 0, 8))
            # trunc to i1 looks at bit 0 only; treat as !=0 only for values known 0/1 (zext of i1)
            if a[0] == "v":
                J = self.fn.insts.get(a[1])
                if J is not None and J.op == "zext" and J.d.get("sty") == "i1":
                    return self.cond_truth(J.ops[0], st, depth + 1)
            return self._lookup(atom, st), atom
        atom = ("ne", ("v", o[1]), ("c", 0, 1))
        return self._lookup(atom, st), atom

    @staticmethod
    def _lookup(atom, st):
        pred, a, b = atom
        for (p, x, y) in st.facts:
            if x == a and y == b:
                if p == pred:
                    return True
                if pred in _CONTRA.get(p, ()):
                    return False
                if _NEG[pred] == p:
                    return False
            elif x == b and y == a:
                ps = _SWAP[p]
                if ps == pred:
                    return True
                if pred in _CONTRA.get(ps, ()):
                    return False
            # constant-vs-constant refinement: x == a, both compared to constants
            if x == a and y[0] == "c" and b[0] == "c" and y != b:
                # fact: a p y ; query: a pred b
                r = _const_implies(p, y[1], pred, b[1], max(y[2], b[2]))
                if r is not None:
                    return r
        return None

    def dominating_facts(self, block):
        """facts implied by the conditional edges that dominate `block`"""
        fn = self.fn
        st = PathState()
        idom = fn.dom()
        chain = []
        b = block
        while b in idom and idom[b] != b:
            b = idom[b]
            chain.append(b)
        for d in reversed(chain):
            T = fn.blocks[d][-1]
            if T.op == "br" and len(T.d["succs"]) == 2 and T.d["succs"][0] != T.d["succs"][1]:
                s1, s0 = T.d["succs"]
                e1 = fn.edge_dominates(d, s1, block)
                e0 = fn.edge_dominates(d, s0, block)
                if e1 == e0:
                    continue
                t, atom = self.cond_truth(T.ops[0], st)
                if atom is None:
                    continue
                st.facts.append(atom if e1 else (_NEG[atom[0]], atom[1], atom[2]))
        return st

    def search(self, start, goal, blockers=(), start_state=None, skip_start=True, accept=None):
        """start: Inst (search begins after it) or block id (begins at block
        entry). goal: predicate Inst->bool. blockers: predicate Inst->bool or
        set of inst ids.  Returns a path (list of Inst at which goal reached,
        with block trail) or None."""
        fn = self.fn
        if not callable(blockers):
            bl = set(blockers)
            blockers_f = lambda I: I.id in bl
        else:
            blockers_f = blockers
        self.steps = 0
        if start_state is None and isinstance(start, Inst):
            start_state = self.dominating_facts(start.block)
        st = start_state.copy() if start_state else PathState()
        if isinstance(start, Inst):
            b, i = start.block, start.idx + (1 if skip_start else 0)
        else:
            b, i = start, 0
        visited = collections.Counter()
        trail = []
        self.accept = accept
        return self._dfs(b, i, st, goal, blockers_f, visited, trail)

    def _dfs(self, b, i, st, goal, blockers, visited, trail):
        fn = self.fn
        self.steps += 1
        if self.steps > self.max_steps:
            raise RuntimeError("path search budget exceeded in %s" % fn.name)
        insts = fn.blocks[b]
        for I in insts[i:]:
            if goal(I):
                if self.accept is not None and not self.accept(st, trail + [(b, I)]):
                    return None
                return trail + [(b, I)]
            if blockers(I):
                return None
        T = insts[-1]
        if T.op == "ret" or T.op == "unreachable":
            return None
        succs = fn.succ[b]
        choices = []
        if T.op == "br" and len(T.d["succs"]) == 2:
            t, atom = self.cond_truth(T.ops[0], st)
            s_true, s_false = T.d["succs"][0], T.d["succs"][1]
            if t is True:
                choices = [(s_true, None)]
            elif t is False:
                choices = [(s_false, None)]
            else:
                choices = [(s_true, atom), (s_false, (_NEG[atom[0]], atom[1], atom[2]) if atom else None)]
                if s_true == s_false:
                    choices = [(s_true, None)]
        elif T.op == "switch":
            c = self.resolve(T.ops[0], st)
            if c[0] == "c":
                tgt = T.d["default"]
                for v, d in T.d["cases"]:
                    if int(v) == int(c[1]):
                        tgt = d
                choices = [(tgt, None)]
            else:
                k = _okey(c)
                seen_t = set()
                for v, d in T.d["cases"]:
                    choices.append((d, ("eq", k, ("c", int(v), 64))))
                choices.append((T.d["default"], None))
        else:
            choices = [(s, None) for s in succs]
        for s, fact in choices:
            if visited[s] >= 1:
                continue
            st2 = st.copy()
            if fact is not None:
                st2.facts.append(fact)
            # resolve phis of successor
            for I in fn.blocks[s]:
                if I.op != "phi":
                    break
                for o, pb in I.d["inc"]:
                    if pb == b:
                        st2.phis[I.id] = self.resolve(o, st)   # resolve w.r.t. old state
                        break
            visited[s] += 1
            r = self._dfs(s, 0, st2, goal, blockers, visited, trail + [(b, T)])
            visited[s] -= 1
            if r is not None:
                return r
        return None


def _const_implies(p, y, q, b, w):
    """fact: v p y. query: v q b. Return True/False if decided, else None.
    Done by interval reasoning on unsigned/signed ranges."""
    U = {"ult", "ule", "ugt", "uge"}
    S = {"slt", "sle", "sgt", "sge"}
    def rng(pred, c, w):
        # returns (lo, hi) inclusive in the predicate's own number line, or None
        M = (1 << w) - 1
        if pred == "eq":
            return (c, c)
        if pred in U:
            return {"ult": (0, c - 1), "ule": (0, c), "ugt": (c + 1, M), "uge": (c, M)}[pred]
        return None
    if p == "eq":
        try:
            return _eval_pred(q, y, b, w)
        except KeyError:
            return None
    if p in U and (q in U or q in ("eq", "ne")):
        lo, hi = rng(p, y, w)
        if lo > hi:
            return None
        vals_true = None
        if q in U:
            qlo, qhi = rng(q, b, w)
            if lo >= qlo and hi <= qhi:
                return True
            if hi < qlo or lo > qhi:
                return False
            return None
        if q == "eq":
            if b < lo or b > hi:
                return False
            if lo == hi == b:
                return True
            return None
        if q == "ne":
            if b < lo or b > hi:
                return True
            if lo == hi == b:
                return False
            return None
    if p == "ne" and q == "eq" and y == b:
        return False
    return None


def path_desc(fn, path):
    out = []
    for b, I in path:
        out.append({"block": fn.bnames.get(b, str(b)), "line": I.line, "op": I.op,
                    "callee": I.d.get("callee")})
    return out


# --------------------------------------------------------------------------
# canonical expression strings for SSA operands (used to name branch atoms)

def expr(fn, o, depth=6, phis=None):
    """structural description of an operand: params by name, constants,
    loads as load(ptr), geps as ptr+off, calls as callee(args)"""
    m = fn.m
    if o[0] == "c":
        return str(cval(o, signed=True))
    if o[0] == "n":
        return "NULL"
    if o[0] == "g":
        s = m.operand_cstring(o)
        return "@" + o[1] if s is None else repr(s.decode("latin1"))
    if o[0] == "f":
        return "&" + o[1]
    if o[0] == "e":
        s = m.operand_cstring(o)
        if s is not None:
            return repr(s.decode("latin1"))
        return "%s(%s)" % (o[1], ",".join(expr(fn, x, depth - 1, phis) for x in o[2]))
    if o[0] == "x":
        return o[1]
    if o[0] != "v":
        return o[0]
    vid = o[1]
    if phis and vid in phis and vid >= fn.nparams and fn.insts[vid].op != "phi":
        return expr(fn, phis[vid], depth - 1, phis)
    if vid < fn.nparams:
        return fn.params[vid]["name"] or "arg%d" % vid
    if depth <= 0:
        return "%%%d" % vid
    I = fn.insts[vid]
    if I.op == "phi":
        if phis and vid in phis:
            return expr(fn, phis[vid], depth - 1, phis)
        return "phi%d" % vid
    if I.op in ("bitcast", "zext", "sext", "trunc", "ptrtoint", "inttoptr", "freeze"):
        inner = expr(fn, I.ops[0], depth, phis)
        if I.op in ("bitcast", "ptrtoint", "inttoptr", "freeze"):
            return inner
        return "%s(%s)" % (I.op, inner)
    if I.op == "load":
        return "load(%s)" % expr(fn, I.ops[0], depth - 1, phis)
    if I.op == "getelementptr":
        base = expr(fn, I.ops[0], depth - 1, phis)
        c = I.d.get("cpart")
        vp = I.d.get("vpart") or []
        if c is not None and not vp:
            return base if c == 0 else "%s+%d" % (base, c)
        parts = [base]
        if c:
            parts.append(str(c))
        for vo, sc in vp:
            parts.append("%s*%d" % (expr(fn, vo, depth - 1, phis), sc))
        return "+".join(parts)
    if I.is_call:
        return "%s(%s)" % (I.callee or "indirect", ",".join(expr(fn, a, depth - 1, phis) for a in I.ops))
    if I.op == "icmp":
        return "(%s %s %s)" % (expr(fn, I.ops[0], depth - 1, phis), I.d["pred"], expr(fn, I.ops[1], depth - 1, phis))
    if I.op == "alloca":
        return "&" + fn.vname(vid)
    if I.op == "select":
        return "select(%s,%s,%s)" % tuple(expr(fn, x, depth - 1, phis) for x in I.ops)
    return "%s(%s)" % (I.op, ",".join(expr(fn, x, depth - 1, phis) for x in I.ops))


def enumerate_paths(fn, max_paths=5000, const_ret=None, cells=None):
    """all acyclic entry->ret paths with correlated-branch pruning.
    Yields (literals, ret_operand_resolved, PathState, trail) where literals is
    a list of (atom(pred,a,b) , described string, truth)."""
    pf = PathFinder(fn, const_ret=const_ret)
    out = []

    cellset = set(cells or [])

    def step_block(b, st):
        """interpret memory cells (*param) and record effect events"""
        if not cellset:
            return
        for I in fn.blocks[b]:
            if I.op == "load" and I.ops[0][0] == "v" and I.ops[0][1] in cellset:
                st.phis[I.id] = st.phis.get(("cell", I.ops[0][1]), ["x", "*%s@entry" % fn.vname(I.ops[0][1])])
            elif I.op == "store" and I.ops[1][0] == "v" and I.ops[1][1] in cellset:
                v = pf.resolve(I.ops[0], st)
                st.phis[("cell", I.ops[1][1])] = v
                st.phis.setdefault("events", [])
                st.phis["events"] = st.phis["events"] + [("store", I, [v, I.ops[1]])]
            elif I.is_call and not (I.callee or "").startswith("llvm.dbg"):
                args = [pf.resolve(a, st) for a in I.ops]
                st.phis["events"] = st.phis.get("events", []) + [("call", I, args)]

    def rec(b, st, lits, visited, trail):
        if len(out) > max_paths:
            raise RuntimeError("too many paths in %s" % fn.name)
        step_block(b, st)
        T = fn.blocks[b][-1]
        trail = trail + [b]
        if T.op == "ret":
            rv = pf.resolve(T.ops[0], st) if T.ops else None
            out.append((lits, rv, st, trail))
            return
        if T.op == "unreachable":
            return
        choices = []
        if T.op == "br" and len(T.d["succs"]) == 2 and T.d["succs"][0] != T.d["succs"][1]:
            t, atom = pf.cond_truth(T.ops[0], st)
            s1, s0 = T.d["succs"]
            if t is True:
                choices = [(s1, None, None)]
            elif t is False:
                choices = [(s0, None, None)]
            else:
                neg = (_NEG[atom[0]], atom[1], atom[2]) if atom else None
                choices = [(s1, atom, True), (s0, neg, False)]
        elif T.op == "switch":
            c = pf.resolve(T.ops[0], st)
            k = _okey(c)
            for v, d in T.d["cases"]:
                choices.append((d, ("eq", k, ("c", int(v), 64)), True))
            choices.append((T.d["default"], None, None))
        else:
            choices = [(s, None, None) for s in fn.succ[b]]
        for s, fact, truth in choices:
            if s in visited:
                continue
            st2 = st.copy()
            l2 = lits
            if fact is not None:
                st2.facts.append(fact)
                l2 = lits + [(fact, T, truth)]
            for I in fn.blocks[s]:
                if I.op != "phi":
                    break
                for o, pb in I.d["inc"]:
                    if pb == b:
                        st2.phis[I.id] = pf.resolve(o, st)
                        break
            rec(s, st2, l2, visited | {s}, trail)

    rec(fn.entry, PathState(), [], {fn.entry}, [])
    return out


def atom_str(fn, atom, st):
    """describe an atom (pred, akey, bkey) using expr() under the path's phi choices"""
    def k2o(k):
        if k[0] == "v":
            return ["v", k[1]]
        if k[0] == "c":
            return ["c", k[1], k[2]]
        return json.loads(k[1])
    return (atom[0], expr(fn, k2o(atom[1]), 6, st.phis), expr(fn, k2o(atom[2]), 6, st.phis))
