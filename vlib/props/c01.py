"""C01 - authentication round trip, the part that is visible in the code.

`crypt(P, H) == H` for H = crypt(P, S) needs (a) that H is accepted as a setting, (b) that the canonical setting part
that is written in front of the digest is the same again, and (c) that the digest is computed from the same inputs.
(c) is decided up to the digest primitives: XAI interprets crypt_rn twice - with a setting S that crypt_gensalt can
produce (exact length, salt characters as byte sets) and with the abstract result H of the first run as the setting - and
compares what the two runs hand to the computation.

  X-REACCEPT     the run on H has a succeeding path and refuses nothing that the run on S did not refuse (the only
                 refusal left is the phrase-length limit).
  X-REECHO       the result of the run on H has the length of H and carries H's setting part cell by cell.
  X-SAME-INPUT   the digest-contract reads (callee, offset, length) of the setting are identical in both runs.
  X-HASH-IGNORED in the run on H no offset of the hash portion (beyond the setting part, its delimiter and one look-ahead
                 character) is read at all, except for one frozen scanning idiom: 'only the prefix, options and salt of a setting influence the result'.  The read record is an
                 over-approximation, so this clause is a proof for the scenarios analysed.

Not decided: that equal inputs give equal digests across two calls is the purity of the primitives (C07 decides the
library-level part); settings that gensalt cannot produce (unusual salt lengths, alternative spellings of the cost field,
sunmd5's `$`/`$$` endings written by hand) are not among the scenarios; gost-yescrypt is not covered.
"""
from .. import common, compose_grid as CG, crypt_oracle as O, xai
from ..report import AnalysisBroken

LEVEL = "other"
TECHNIQUE = "abstract interpretation of the LLVM IR (XAI), two-stage composition: generated setting -> crypt_rn -> abstract result -> crypt_rn, with read-offset tracing; comparison of digest inputs and echoed setting between the two runs"

# reading the hash portion without using it: frozen, one line of reason each
SCAN_OK = {"scrypt": "verify_salt() walks the whole setting to check its alphabet before hashing (acceptance only; yescrypt_r then takes the salt up to the last '$')"}
PHRASE_LIMIT_SITE = "do_crypt"


def creads(trace):
    """digest-contract reads of the setting: (callee, length, digest of the abstract content).  The offset is left out on
    purpose: H may spell the setting part differently from S (a normalised cost field), which moves the salt; what must
    agree is what the primitive is given"""
    return sorted({(e["callee"], tuple(e["len"]), e.get("content")) for e in trace if e.get("k") == "cread" and e.get("reg") == "setting"})


def cinputs(trace):
    """everything the digest primitives are handed, from any region, where the span is exact: (callee, region, offset,
    length, digest of the abstract content).  Equal sets in both runs = the digests are computed from the same bytes."""
    return {(e["callee"], e["reg"], e["off"][0], e["len"][0], e["content"]) for e in trace
            if e.get("k") == "cread" and e.get("content") is not None and e.get("reg") != "setting"}


def run(chk, tier):
    chk.explanation = __doc__
    chk.rule("X-REACCEPT", "crypt_rn accepts its own result as a setting: a succeeding path exists and no refusal appears that the first run did not have")
    chk.rule("X-REECHO", "hashing with H as the setting writes H's setting part again, cell by cell, and a result of H's length")
    chk.rule("X-SAME-INPUT", "both runs hand the same bytes of the setting to the digest primitives (identical contract reads)")
    chk.rule("X-HASH-IGNORED", "with H as the setting no offset inside H's hash portion is read")
    chk.rule("X-NO-STALE", "neither run reads a byte of the data object or of a local that the call has not written, nor tests the caller's errno: the two calls of a round trip see different object contents")
    r = CG.run_rehash(tier)
    per = {}
    for stage, res in (("first", r["first"]["res"]), ("rehash", r["res"])):
        for cid, c in sorted(res.items()):
            al = sorted({(a["kind"], a["fn"], a["line"], a["msg"]) for p in c["paths"] for a in p["alarms"] if a["kind"] in ("UNINIT", "AMBIENT")})
            for kind, fn, line, msg in al[:2]:
                chk.fail("X-NO-STALE", "%s@%s:%d" % (kind, fn, line), "%s line %d: %s [%s run, cell %s] - the result then depends on what an earlier call left behind, so hashing again with the result need not reproduce it" % (fn, line, msg, stage, cid), "%s:%d" % (fn, line), {"cell": cid})
            if not al:
                chk.count("X-NO-STALE", 1, [cid])
    for rid, c in sorted(r["res"].items()):
        mt = r["meta"][rid]
        method = mt["method"]
        if c["budget"]:
            chk.deferred.append("rehash cell %s exhausted its path budget" % rid)
        soft = [a for p in c["paths"] for a in p["alarms"] if a["kind"] == "MODEL"]
        if soft:
            raise AnalysisBroken("rehash cell %s: %s" % (rid, soft[0]["msg"]))
        H = mt["H"]
        shown = xai.show([(s, 0) for s in H])[:100]
        where = {"cell": rid, "H": shown}
        succ = [p for p in c["paths"] if p["ret"].startswith("ptr:")]
        rej = sorted({p.get("errno_at", "") for p in c["paths"] if p["ret"] == "null"})
        new_rej = [x for x in rej if x not in mt["first_rejections"] and x.split(":")[0] not in CG.NOT_A_REJECTION]
        if not succ or new_rej:
            chk.fail("X-REACCEPT", "%s|len%d" % (method, len(H)), "%s: crypt_rn %s its own result %s as a setting%s" % (
                method, "never succeeds with" if not succ else "can refuse", shown, (" (errno set at %s)" % new_rej[0]) if new_rej else ""), "lib/", where)
            continue
        chk.ok("X-REACCEPT", rid, sample={"method": method, "H": shown})
        # echo
        start = mt["setting_part"]            # H = canonical setting part [+ '$'] + digest
        bad = None
        lo1, hi1 = int(mt["phr_box"][0]), int(mt["phr_box"][1])
        same_phrase = [p for p in succ if not (int(p["roots"][0][1]) < lo1 or int(p["roots"][0][0]) > hi1)]
        if not same_phrase:
            chk.fail("X-REACCEPT", "%s|len%d|phrase" % (method, len(H)), "%s: with H=%s as the setting no path succeeds for the phrase lengths %s that produced H" % (method, shown, mt["phr_box"]), "lib/", where)
            continue
        des_family = mt["row"]["prefix"] == ""
        if des_family and not any(O.terminated(p)[1] == len(H) for p in same_phrase):
            bad = "never has H's length %d" % len(H)
        for p in same_phrase:      # paths for other phrase lengths hash a different phrase (bigcrypt: a different result length)
            if bad:
                break
            ok, ln, chars = O.terminated(p)
            if des_family and ok and ln != len(H) and ln > 13 and (ln - 2) % 11 == 0:
                # the DES family walks the phrase byte by byte; the interpreter does not correlate that walk with the
                # phr_size <= 8 test that selected this branch, so it also explores bigcrypt's longer results here: not decided
                chk.distinct.add(("X-REECHO-undecided-length", rid))
                continue
            if not ok or ln != len(H):
                bad = "has length %s, H has %d" % (ln if ok else "unknown", len(H))
                break
            for i in range(min(start, ln)):
                if not (chars[i][0] <= H[i]) and len(chars[i][0]) < 200:
                    bad = "differs from H at position %d" % i
                    break
            if bad:
                break
        if bad:
            chk.fail("X-REECHO", "%s|len%d" % (method, len(H)), "%s: the result of hashing with H=%s %s" % (method, shown, bad), "lib/", where)
        else:
            chk.ok("X-REECHO", rid)
        # same digest inputs
        c1, c2 = creads(mt["first_trace"]), creads(c.get("trace", []))
        r1 = mt["first_reads"].get("setting", [])
        r2 = c.get("reads", {}).get("setting", [])
        if c1 != c2:
            d = [x for x in c2 if x not in c1] or [x for x in c1 if x not in c2]
            chk.fail("X-SAME-INPUT", "%s|len%d|cread" % (method, len(H)), "%s: with H as the setting the digest primitives read other bytes of the setting than with the original setting: %s (first run: %s)" % (method, d[:2], c1[:3]), "lib/", where)
        else:
            # exact spans of any other region (the result buffer that sha1crypt primes its HMAC with, scratch copies ...): same
            # callee, place, length and abstract content in both runs
            i1, i2 = cinputs(mt["first_trace"]), cinputs(c.get("trace", []))
            only2 = sorted(x for x in i2 if x not in i1)
            only1 = sorted(x for x in i1 if x not in i2)
            if only1 or only2:
                chk.fail("X-SAME-INPUT", "%s|len%d|content" % (method, len(H)), "%s: with H as the setting a digest primitive is handed different bytes than with the original setting: %s in the rehash vs %s in the first run (callee, region, offset, length, content digest)" % (
                    method, [x[:4] for x in only2[:2]], [x[:4] for x in only1[:2]]), "lib/", where)
            else:
                chk.ok("X-SAME-INPUT", rid, sample={"method": method, "digest_reads_of_setting": c1[:3], "offsets": r2, "other_exact_inputs": len(i1)})
        # hash portion untouched
        # the delimiter after the setting part and one look-ahead character (sunmd5 tests for a second '$') are compared, not used
        over = [(a, b) for a, b in r2 if b > start + 2]
        if over and method not in SCAN_OK:
            chk.fail("X-HASH-IGNORED", "%s|len%d" % (method, len(H)), "%s: offsets %s of the setting may be read although the setting part ends at %d: the hash portion of a setting influences the computation" % (method, over, start), "lib/", where)
        else:
            chk.ok("X-HASH-IGNORED", rid, sample={"method": method, "setting_part": start, "offsets_read": r2, "exception": SCAN_OK.get(method)})
        per[method] = per.get(method, 0) + 1
    if len(per) < 8:
        raise AnalysisBroken("rehash composition covered only %d methods" % len(per))
    chk.note("rehash", {"cells": r["ncells"], "per_method": per, "engine_wall_s": round(r["wall"] + r["first"]["wall"], 1), "scan_exceptions": SCAN_OK})
    chk.trusted_base = ["clang 14 front end", "LLVM sroa/mem2reg", "src/xai*.{cc,h} incl. its read tracing", "digest contracts in vlib/crypt_grid.py"]
    chk.assumptions += ["scenarios: settings crypt_gensalt can produce (two patterns per method in the quick tier, all kept patterns in the thorough tier) and their abstract results; other accepted spellings of a setting are not analysed",
                        "equal inputs to the digest primitives give equal digests (purity of the primitives; the library-level part is C07)",
                        "gost-yescrypt's crypt path is not covered"]
