"""C03 - no false accept, the structural part: every byte the method documents as significant reaches the computation.

What is decided (and what is not): the property says that changing a significant byte of the phrase, or a character of
the salt or cost, changes the hash.  Whether a digest really depends on a byte it was given is a statement about the
digest functions (C16, not decidable here).  Decided is the necessary condition that is visible in the code: the byte is
*handed* to the computation at all.  XAI interprets crypt_rn for settings crypt_gensalt can produce (exact lengths) with an
arbitrary phrase of 0..511 bytes and records, per scenario, every offset of the phrase and of the setting that a load, a
digest-contract read (ptr,len), the source of a formatted copy or a numeric parser may touch; plain copies into the result
(the echo of the setting) are not reads.  The record is an over-approximation, so an offset outside it is *never* read on
any path: if such an offset lies inside the significant window of the phrase, or is a salt / cost character of the setting,
two inputs differing only there produce the same hash - a definite violation.  An offset inside the record proves nothing.

  X-PHRASE-SPAN   the read offsets of the phrase cover 0 .. W-1, W = 8 (descrypt), 128 (bigcrypt), 72 (bcrypt), 511 otherwise
                  (phrases of 512 bytes and more are refused).  Sharp for the methods that pass (phrase, length) to a digest
                  or KDF primitive - md5crypt, sha256crypt, sha512crypt, sunmd5, sha1crypt, scrypt, yescrypt - because there
                  the length is a value range; for the methods that walk the phrase in a loop (DES family, bcrypt, NT) loop
                  summarisation blurs the offsets upwards and the rule only confirms that the window is reached.
  X-PHRASE-DIGEST the longest phrase-derived span (by byte provenance) that a digest / cipher contract receives covers the
                  window: 511 bytes for the direct methods, 1022 for NT (UTF-16 copy in the scratch area), an 8-byte key block for
                  the DES family.  This is what sees a clamp between the phrase and the digest when the phrase is first copied.
  X-SALT-SPAN     every salt character (derived from the random bytes) and every cost character (derived from count) of the
                  generated setting is among the read offsets of the setting.
  R-PHRASE-LIMIT  the one length limit in front of all methods is the documented CRYPT_MAX_PASSPHRASE_SIZE (512): phrases
                  are not silently cut before dispatch.
"""
from .. import common, compose_grid as CG, xai
from ..report import AnalysisBroken

LEVEL = "other"
TECHNIQUE = "abstract interpretation of the LLVM IR (XAI) with read-offset tracing of phrase and setting over exact-length generated settings; a never-read significant offset is reported"

WINDOW = {"descrypt": 8, "bigcrypt": 128, "bcrypt": 72, "bcrypt_a": 72, "bcrypt_x": 72, "bcrypt_y": 72}
SHARP = {"md5crypt", "sha256crypt", "sha512crypt", "sunmd5", "sha1crypt", "scrypt", "yescrypt"}
MAXPHRASE = 511
P_PHRASE = 32
# longest phrase-derived input that a digest / cipher primitive must be able to receive in one call (bytes): the whole phrase
# for the methods that pass it on directly, its UTF-16 expansion for NT, one 8-byte key block for the DES family
EXPECT_DIGEST = {"nt": 2 * MAXPHRASE, "descrypt": 8, "bigcrypt": 8, "bsdicrypt": 8, "gost_yescrypt": MAXPHRASE}
P_RBYTES, P_COUNT = 1, 8


def covered(ranges, lo, hi):
    """is [lo,hi) inside the union of [a,b) ranges"""
    pos = lo
    for a, b in sorted(ranges):
        if a > pos:
            break
        pos = max(pos, b)
        if pos >= hi:
            return True
    return pos >= hi


def run(chk, tier):
    chk.explanation = __doc__
    chk.rule("X-PHRASE-SPAN", "every phrase offset inside the method's documented significant window may be read by the computation (an offset that is never read cannot influence the hash)")
    chk.rule("X-PHRASE-DIGEST", "the digest / cipher primitives can receive a phrase-derived input as long as the significant window (the whole phrase; its UTF-16 form for NT; an 8-byte key block for the DES family)")
    chk.rule("X-PHRASE-FULL", "every digest / KDF call that receives the phrase from its first byte with a variable length can receive the whole significant window (no call site is handed a clamped length)")
    chk.rule("X-SALT-SPAN", "every salt and cost character of a generated setting may be read by the computation (not merely echoed)")
    chk.rule("R-PHRASE-LIMIT", "do_crypt refuses phrases of CRYPT_MAX_PASSPHRASE_SIZE (512) bytes and more and passes the full length on otherwise")
    t = CG.run_traced(tier)
    per = {}
    for cid, c in sorted(t["res"].items()):
        mt = t["meta"][cid]
        method = mt["method"]
        if c["budget"]:
            chk.deferred.append("traced cell %s exhausted its path budget" % cid)
        soft = [a for p in c["paths"] for a in p["alarms"] if a["kind"] in ("MODEL",)]
        if soft:
            raise AnalysisBroken("traced cell %s: %s" % (cid, soft[0]["msg"]))
        if not any(p["ret"].startswith("ptr:") for p in c["paths"]):
            raise AnalysisBroken("traced cell %s has no succeeding path" % cid)
        reads = c.get("reads")
        if reads is None:
            raise AnalysisBroken("traced cell %s carries no read record" % cid)
        shown = xai.show([(s, 0) for s in mt["pattern"]])[:60]
        # phrase
        row = mt["row"]
        w = WINDOW.get(method, MAXPHRASE)
        if row["prefix"] == "":
            # a two-character setting selects descrypt (13-character result) whatever the table row is called
            w = 8 if len(mt["pattern"]) <= 2 else 128
        pr = reads.get("phrase", [])
        if not covered(pr, 0, w):
            upto = 0
            for a, b in sorted(pr):
                if a <= upto:
                    upto = max(upto, b)
            chk.fail("X-PHRASE-SPAN", "%s|%d" % (method, upto), "%s: phrase bytes from offset %d on are never read although the first %d bytes are significant (setting %s)" % (method, upto, w, shown),
                     "lib/", {"cell": cid, "reads": pr, "digest_reads": [e for e in c.get("trace", []) if e.get("k") == "cread" and e.get("reg") == "phrase"][:6]})
        else:
            chk.ok("X-PHRASE-SPAN", cid, sample={"method": method, "window": w, "reads": pr, "sharp": method in SHARP})
        # what the primitives receive: the longest phrase-derived span handed to a digest / cipher contract
        want = EXPECT_DIGEST.get(method, MAXPHRASE if method in SHARP else None)
        if want is not None:
            spans = [e for e in c.get("trace", []) if e.get("k") == "cread" and (e.get("prov", 0) & P_PHRASE)]
            got = max([int(e["len"][1]) for e in spans] or [0])
            if got < want:
                chk.fail("X-PHRASE-DIGEST", "%s|%d" % (method, got), "%s: the longest phrase-derived input a digest primitive can receive is %d bytes, the significant window needs %d (setting %s)" % (method, got, want, shown), "lib/", {"cell": cid, "spans": spans[:4]})
            else:
                chk.ok("X-PHRASE-DIGEST", cid, sample={"method": method, "longest": got, "needed": want})
        # every digest / KDF call that is handed the phrase itself (from its first byte) is handed all of it
        short = [e for e in c.get("trace", []) if e.get("k") == "cread" and e.get("reg") == "phrase" and e["off"] == [0, 0] and int(e["len"][1]) < min(w, MAXPHRASE) and e["len"][0] != e["len"][1]]      # a constant length (md5crypt mixes in phrase[0] byte by byte) is not a clamp
        if short:
            e = short[0]
            chk.fail("X-PHRASE-FULL", "%s|%s@%s:%d" % (method, e["callee"], e["fn"], e["line"]), "%s: %s (called from %s line %d) is handed at most %d bytes of the phrase although %d are significant (setting %s)" % (
                method, e["callee"], e["fn"], e["line"], int(e["len"][1]), min(w, MAXPHRASE), shown), "%s:%d" % (e["fn"], e["line"]), {"cell": cid})
        else:
            chk.count("X-PHRASE-FULL", max(1, len([e for e in c.get("trace", []) if e.get("k") == "cread" and e.get("reg") == "phrase"])), [cid])
        # setting
        provs = mt.get("provs")
        if provs is None or len(provs) != len(mt["pattern"]):
            raise AnalysisBroken("no provenance for the generated pattern of %s" % cid)
        sr = reads.get("setting", [])
        missing = [i for i, p_ in enumerate(provs) if p_ & (P_RBYTES | P_COUNT) and not covered(sr, i, i + 1)]
        if missing:
            chk.fail("X-SALT-SPAN", "%s|%s" % (method, ",".join(map(str, missing[:4]))), "%s: character(s) %s of the generated setting %s (%s) are echoed at most, never read by the computation" % (
                method, missing[:8], shown, "salt" if provs[missing[0]] & P_RBYTES else "cost"), "lib/", {"cell": cid, "reads": sr})
        else:
            n = sum(1 for p_ in provs if p_ & (P_RBYTES | P_COUNT))
            chk.count("X-SALT-SPAN", max(n, 1), [cid])
        per[method] = per.get(method, 0) + 1
    if len(per) < 8:
        raise AnalysisBroken("traced composition covered only %d methods" % len(per))
    phrase_limit(chk)
    chk.note("traced", {"cells": t["ncells"], "per_method": per, "engine_wall_s": round(t["wall"], 1), "sharp_for": sorted(SHARP)})
    chk.trusted_base = ["clang 14 front end", "LLVM sroa/mem2reg", "src/xai*.{cc,h} incl. its read tracing", "digest contracts in vlib/crypt_grid.py (a contract read (ptr,len) is what hands bytes to a digest)"]
    chk.assumptions += ["decides only that significant bytes are handed to the computation, not that the digest depends on them (C16/C02 are not decidable statically)",
                        "settings: those crypt_gensalt can produce (exact lengths); gost-yescrypt's crypt path is not covered",
                        "for descrypt, bigcrypt, bcrypt and NT the phrase is walked in a loop: the rule confirms the window is reached but would not see a shortened loop bound"]


def phrase_limit(chk):
    m, info = common.prog("shared")
    F = common.sym(m, "do_crypt")
    # the length of the phrase (strlen, or strnlen with a bound of at least 512) is compared (>=) with 512 once, and the same
    # value is what the method receives as phr_size
    p0 = ["v", F.params[0]["id"]]
    lens = [c for c in F.calls("strlen") if c.ops and c.ops[0] == p0]
    bounded = [c for c in F.calls("strnlen") if c.ops and c.ops[0] == p0]
    for c in bounded:
        b = c.ops[1]
        if b[0] == "c" and int(b[1]) < 512:
            chk.fail("R-PHRASE-LIMIT", "do_crypt:strnlen", "do_crypt measures the phrase with strnlen(phrase, %d): bytes from offset %d on can never count, although phrases of up to 511 bytes are significant" % (int(b[1]), int(b[1])), "lib/crypt.c:%d" % c.line)
            return
    lens = lens or bounded
    if not lens:
        chk.deferred.append("do_crypt no longer measures the phrase with strlen/strnlen: R-PHRASE-LIMIT cannot be evaluated")
        return
    c = lens[0]
    cmp_ok = any(U.op == "icmp" and U.d.get("pred") == "uge" and ["c", 512, 64] in U.ops for U in F.users(c.id))
    passed = any(U.is_call and U.callee is None and len(U.ops) >= 2 and U.ops[1] == ["v", c.id] and U.ops[0] == p0 for U in F.users(c.id))
    if cmp_ok and passed:
        chk.ok("R-PHRASE-LIMIT", "do_crypt:strlen(phrase) uge 512", sample={"line": c.line})
    else:
        chk.fail("R-PHRASE-LIMIT", "do_crypt", "do_crypt does not refuse exactly the phrases of 512 bytes and more, or does not hand (phrase, strlen(phrase)) unchanged to the method (compare: %s, passed on: %s)" % (cmp_ok, passed), "lib/crypt.c:%d" % c.line)
