"""C04 - memory safety and write confinement: crypt_rn interpreted abstractly (XAI) for every method with an arbitrary phrase, an arbitrary filter-clean setting carrying the method's prefix, every size argument and the data object at several alignments; plus the gensalt grid (C13) for the gensalt entry points; plus the typed field census (R-FIELDS) and the scratch-size guards (R-SCRATCH-GUARD)."""
from .. import crypt_grid as K, crypt_oracle as O, common, ir
from ..report import AnalysisBroken, Check

LEVEL = "proof"
TECHNIQUE = "abstract interpretation of the LLVM IR (XAI: intervals x known bits x byte sets, symbolic lengths, loop summarisation by widening, digest contracts) with obligations on every memory access"


def run(chk, tier):
    chk.explanation = __doc__
    g = K.run(tier)
    O.health(chk, g)
    O.c04(chk, g)
    from .. import unit_contracts as U
    U.oracle(chk, U.run(tier))
    extra(chk, g, tier)
    chk.note("grid", {"cells": g["ncells"], "abstract_paths": sum(c["npaths"] for c in g["res"].values()),
                      "deduplicated_states": sum(c.get("ndedup", 0) for c in g["res"].values()),
                      "engine_wall_s": round(g["wall"], 1), "from_cache": g.get("cached", False),
                      "methods": sorted({m["base"] for m in g["meta"].values()}),
                      "alignments": sorted({m["align"] for m in g["meta"].values()}),
                      "NOT_covered": K.UNCOVERED})
    chk.trusted_base = ["clang 14 front end", "LLVM sroa/mem2reg", "LLVM ConstantRange/KnownBits", "src/xai*.{cc,h}", "digest contracts in vlib/crypt_grid.py", "vlib/crypt_oracle.py"]
    chk.assumptions += ["phrase and setting are NUL-terminated strings; reads of these two strings carry no obligation (over-reads of caller strings are NOT decided)",
                        "the setting passed check_badsalt_chars (C05 R-FILTER-SPEC / R-FILTER-DOM establish that summary); the digest primitives obey their contracts (read (ptr,len), write result and context of their declared size)",
                        "the crypt path of gost-yescrypt ($gy$) is covered only for settings crypt_gensalt can produce (X-COMPOSED-*), not for arbitrary settings: %s; yescrypt's decode64/decode64_uint32 are replaced by contracts that rule U-CONTRACT verifies against their bodies" % K.UNCOVERED,
                        "uninitialised reads of scratch and signed-overflow UB inside digest rounds are NOT decided"]


def extra(chk, g, tier):
    """structural rules that do not depend on values"""
    from . import c07
    m = g["module"]
    sub = Check("C04", tier)
    sub.known = {}
    c07.fields_rule(sub, m, "shared")
    for v in sub.violations:
        chk.fail("R-FIELDS", v["instance"], v["message"], v["loc"], v["detail"])
    chk.count("R-FIELDS", sub.rules.get("R-NO-READ-FIELDS", {"ok": 0})["ok"], ["fields"])
    chk.rules["R-FIELDS"]["desc"] = "no typed address computation into `setting`/`input`; reserved/initialized only wiped"
    # scratch guard: every table crypt function compares scr_size with a constant before using scratch
    tbl = m.hash_table()
    for r in tbl["rows"]:
        if not r["crypt"]:
            continue
        F = m.functions[m.resolve(r["crypt"])]
        scr, scs = F.params[6]["id"], F.params[7]["id"]
        uses = [U for U in F.users(scr)]
        guards = [U for U in F.users(scs) if U.op == "icmp" or U.is_call]
        inst = F.name
        if not uses:
            chk.ok("R-SCRATCH-GUARD", inst + ":unused")
            continue
        if not guards:
            chk.fail("R-SCRATCH-GUARD", inst, "%s uses its scratch area without looking at scr_size" % F.name, common.short(F.file))
            continue
        bad = [U for U in uses if not U.is_call and U.op not in ("icmp",) and not any(F.dominates(G, U) for G in guards)]
        if bad:
            chk.fail("R-SCRATCH-GUARD", inst, "%s touches scratch (line %d) before checking scr_size" % (F.name, bad[0].line), common.loc(bad[0]))
        else:
            chk.ok("R-SCRATCH-GUARD", inst, sample={"function": F.name, "guards": [G.line for G in guards]})
    chk.rules["R-SCRATCH-GUARD"]["desc"] = "scr_size is examined before the scratch area is used"
    # allocation results: the grid replaces yescrypt_kdf (and with it alloc_region/free_region) by a contract, so the
    # allocator discipline of that code is decided structurally (C15's rule: result compared with its failure value
    # before use, MAP_FAILED never escapes as a region)
    from . import c15
    from .. import summ
    sub = Check("C04", tier)
    sub.known = {}
    api = m.reach([common.sym(m, n).name for n in common.ALL_API])
    nalloc = c15.alloc_checked(sub, m, summ.Summaries(m), "shared", api)
    if nalloc < 4:
        raise AnalysisBroken("only %d allocator call sites found" % nalloc)
    for v in sub.violations:
        chk.fail("R-ALLOC-CHECKED", v["instance"], v["message"], v["loc"], v["detail"])
    chk.count("R-ALLOC-CHECKED", sub.rules.get("R-ALLOC-CHECKED", {"ok": 0})["ok"], ["alloc"])
    chk.rules["R-ALLOC-CHECKED"]["desc"] = "allocator results are compared with their failure value before use; a failed mmap never escapes as a usable region (imported from C15)"
    # crypt_ra / crypt_gensalt_ra hand a caller-recorded block to the worker: that the block really has the size of
    # struct crypt_data on every path is C14's typestate rule, a memory-safety obligation as well (imported)
    from . import c14
    sub = Check("C04", tier)
    sub.known = {}
    c14.run(sub, tier)
    for v in sub.violations:
        chk.fail("R-RA-TYPESTATE", v["instance"], v["message"], v["loc"], v["detail"])
    chk.count("R-RA-TYPESTATE", sum(r["ok"] for r in sub.rules.values()), ["crypt_ra"])
    chk.rules["R-RA-TYPESTATE"]["desc"] = "crypt_ra / crypt_gensalt_ra never run the worker on a block smaller than struct crypt_data, never lose or double-free the caller's block (imported from C14)"
    # gost-yescrypt: not in the crypt grid (see K.UNCOVERED); for the settings crypt_gensalt can produce (exact lengths) the
    # composition grid interprets its whole crypt path, with the same obligations on every access
    from .. import compose_grid as CG
    cg = CG.run(tier)
    ngy = 0
    for cid, c in sorted(cg["res"].items()):
        if cg["meta"][cid]["row"]["prefix"] not in K.UNCOVERED:
            continue
        if c["budget"]:
            chk.deferred.append("composition cell %s exhausted its path budget" % cid)
        for p in c["paths"]:
            hard = [a for a in p["alarms"] if a["kind"] in O.HARD]
            for a in hard[:2]:
                chk.fail("X-COMPOSED-" + ("R" if a["kind"] in ("R", "UNINIT") else "W"), "%s@%s:%d|%s" % (a["kind"], a["fn"], a["line"], cg["meta"][cid]["method"]),
                         "%s in %s line %d: %s [crypt_rn with a generated %s setting of %d characters]" % (a["kind"], a["fn"], a["line"], a["msg"], cg["meta"][cid]["method"], len(cg["meta"][cid]["pattern"])),
                         "%s:%d" % (a["fn"], a["line"]), {"cell": cid})
            if not hard:
                chk.count("X-COMPOSED-W", p["nW"])
                chk.count("X-COMPOSED-R", p["nR"])
                ngy += 1
    if K.UNCOVERED and ngy < 2:
        raise AnalysisBroken("no composition cell covers the methods that the crypt grid leaves out (%s)" % sorted(K.UNCOVERED))
    for r_ in ("X-COMPOSED-W", "X-COMPOSED-R"):
        chk.rules.setdefault(r_, {"instances": 0, "ok": 0, "desc": ""})["desc"] = "memory accesses of the methods outside the crypt grid (gost-yescrypt), interpreted for every setting crypt_gensalt can produce"
    # gensalt entry points: reuse the C13 grid obligations
    from .. import gensalt_grid as G, gensalt_oracle as GO
    gg = G.run(tier)
    GO.engine_health(chk, gg)
    sub = Check("C04", tier)
    sub.known = {}
    GO.c13(sub, gg)
    for v in sub.violations:
        if v["rule"] in ("X-W", "X-ABORT", "X-LEN"):
            chk.fail(v["rule"] + "-GENSALT", v["instance"], v["message"], v["loc"], v["detail"])
    for r in ("X-W", "X-ABORT", "X-LEN"):
        chk.count(r + "-GENSALT", sub.rules[r]["ok"], ["gensalt-grid"])
        chk.rules[r + "-GENSALT"]["desc"] = "same obligation on the crypt_gensalt_rn grid (see C13)"
