"""C05 - failures are fail-closed: NULL or '*' token, never a usable or stale hash.

R-TOKEN-FIRST        make_failure_token on the result buffer dominates the worker call and every
                     return of crypt_r / crypt_rn / crypt_ra / crypt_gensalt_rn.
R-NO-ERR-AFTER-WRITE in every function that receives the result buffer (table slots and their
                     helpers, role propagated through calls) there is no feasible path from a write
                     into the buffer to an errno store: once the token is overwritten the call
                     cannot fail any more.
R-ERR-SET            every path of a buffer-role function to a return has written the buffer or
                     stored errno (directly, via a callee that always does, or via libc's ENOMEM);
                     every early return of do_crypt / crypt_rn / crypt_gensalt_rn stores errno.
R-FILTER-DOM         the method call in do_crypt is dominated by the rejecting edges of the NULL
                     test, the length cap (512), check_badsalt_chars and the lookup.
R-FILTER-SPEC        check_badsalt_chars is a left-to-right scan and, evaluated abstractly on all
                     256 one-byte strings, rejects exactly {<=0x20, >=0x7f, ! * : ; \\}.
R-NULL-IFF-STAR      crypt_rn / crypt_ra return NULL exactly when output[0] == '*'.
X-TOKEN              make_failure_token for every size and setting head: *0 / *1 / * / empty,
                     differs from the setting, shorter than 13, starts with a rejected byte.
"""
import re
from .. import common, ir, xai, summ
from ..report import AnalysisBroken

LEVEL = "other"
TECHNIQUE = "dominance / no-path rules with function summaries on SSA CFGs + abstract evaluation (XAI) of the character filter and the failure-token writer"

EINVAL, ERANGE, ENOMEM = 22, 34, 12
REJECT = frozenset(list(range(0, 0x21)) + list(range(0x7f, 256)) + [ord(c) for c in "!*:;\\"])


def token_first(chk, m, flavour):
    R = "R-TOKEN-FIRST"
    for name, worker in (("crypt_r", "do_crypt"), ("crypt_rn", "do_crypt"), ("crypt_ra", "do_crypt"), ("crypt_gensalt_rn", None)):
        F = common.sym(m, name)
        inst = "%s:%s" % (flavour, name)
        toks = [c for c in F.calls() if (c.callee or "").endswith("make_failure_token")]
        if worker:
            works = list(F.calls(worker))
        else:
            works = [I for I in F.all_insts() if I.is_call and I.callee is None and I.d.get("asm") is None]
        if not toks:
            chk.fail(R, inst, "%s never writes the failure token" % name, common.short(F.file))
            continue
        if not works:
            raise AnalysisBroken("%s: worker call not found" % name)
        T = toks[0]
        bad = False
        for W in works:
            if not F.dominates(T, W):
                chk.fail(R, inst + ":worker", "%s: make_failure_token does not dominate the hashing call (a path reaches it with a stale buffer)" % name, common.loc(W))
                bad = True
        for r in F.rets():
            if not F.dominates(T, r):
                # returns before the token are allowed only if they return NULL and never touched the object (crypt_ra's realloc failure)
                pf = ir.PathFinder(F)
                p = pf.search(F.entry, lambda I: I.id == r.id, blockers={T.id})
                if p is not None:
                    vals = [v for v in __import__("vlib.props.c07", fromlist=["x"]).ret_values(F, r.ops[0])]
                    # along that path: which value is returned? accept NULL-only
                    if not all(v[0] == "n" for v in vals) and name != "crypt_ra":
                        chk.fail(R, inst + ":ret", "%s can return a non-NULL result without having written the failure token first" % name, common.loc(r))
                        bad = True
        # the token goes into the object the result lives in
        buf = ir.expr(F, T.ops[1], 5)
        if worker:
            obj = ir.expr(F, works[0].ops[2], 5)
            if buf != obj:
                chk.fail(R, inst + ":buf", "%s: failure token written to %s but the hash is produced in %s" % (name, buf, obj), common.loc(T))
                bad = True
        else:
            obj = ir.expr(F, works[0].ops[3], 5)
            if buf != obj:
                chk.fail(R, inst + ":buf", "%s: failure token written to %s but the setting is produced in %s" % (name, buf, obj), common.loc(T))
                bad = True
        if name == "crypt_rn":
            # size passed is min(size, sizeof output): must not depend on more than that; token must be unconditional
            if not F.block_dominates(T.block, F.rets()[0].block):
                chk.fail(R, inst + ":cond", "crypt_rn writes the failure token only conditionally", common.loc(T))
                bad = True
        if not bad:
            chk.ok(R, inst, sample={"function": name, "token_into": buf, "dominates": worker or "h->gensalt"})


def buffer_roles(m, S):
    """(function name, param index) pairs that hold the caller's result buffer"""
    tbl = m.hash_table()
    roles = set()
    work = []
    for r in tbl["rows"]:
        if r["crypt"]:
            work.append((m.resolve(r["crypt"]), 4))
        if r["gensalt"]:
            work.append((m.resolve(r["gensalt"]), 3))
    while work:
        fn, k = work.pop()
        if (fn, k) in roles or fn not in m.functions:
            continue
        roles.add((fn, k))
        F = m.functions[fn]
        der = F.based_on([k])
        for v in der:
            for U in F.users(v):
                if U.is_call:
                    for ai, a in enumerate(U.ops):
                        if a[0] == "v" and a[1] in der:
                            for c in S.callees_of(F, U):
                                if c in m.functions:
                                    work.append((c, ai))
    return roles


def no_err_after_write(chk, m, S, flavour):
    R = "R-NO-ERR-AFTER-WRITE"
    roles = buffer_roles(m, S)
    crm = S.const_ret_map()
    n = 0
    for fn, k in sorted(roles):
        F = m.functions[fn]
        W = S.write_sites(F, k)
        E = S.errno_sites(F)
        inst = "%s:%s(%s)" % (flavour, fn, F.vname(k))
        if not W or not E:
            chk.ok(R, inst)
            continue
        pf = ir.PathFinder(F, const_ret=crm)
        eids = {e[0].id: e for e in E}
        bad = None
        for w in W:
            # a call that writes and may also set errno internally is judged inside the callee (role propagation)
            p = pf.search(w, lambda I: I.id in eids and I.id != w.id, blockers=())
            if p is not None:
                bad = (w, p)
                break
        if bad:
            w, p = bad
            e = eids[p[-1][1].id]
            chk.fail(R, inst, "%s writes the result buffer at line %d (%s) and can still fail afterwards: errno %s at line %d"
                     % (fn, w.line, w.callee or w.op, "store %d" % e[2] if e[1] == "store" else "via " + str(e[2]), p[-1][1].line),
                     common.loc(w), ir.path_desc(F, p))
        else:
            chk.ok(R, inst, sample={"function": fn, "buffer": F.vname(k), "write_sites": len(W), "errno_sites": len(E)})
        n += 1
    return roles


def rn_size(chk, m, flavour):
    """R-RN-SIZE: in crypt_rn every path to the worker carries facts that bound the signed `size` argument from below by
    sizeof(struct crypt_data); a negative size (huge when converted) or a too-small one must have returned ERANGE before"""
    from . import c14
    F = common.sym(m, "crypt_rn")
    st = m.structs.get("struct.crypt_data")
    need = st["size"] if st else 32768
    size_id = F.params[3]["id"]
    sym = F.vname(size_id)
    pf = ir.PathFinder(F)
    calls = [c for c in F.calls() if (c.callee or "").endswith("do_crypt")]
    if not calls:
        raise AnalysisBroken("crypt_rn does not call do_crypt any more")
    for c in calls:
        stt = pf.dominating_facts(c.block)
        lits = [ir.atom_str(F, a, stt) for a in stt.facts]
        lo, hi = c14.int_bounds(lits, sym)
        inst = "%s:crypt_rn->do_crypt@%d" % (flavour, c.line)
        if lo >= need:
            chk.ok("R-RN-SIZE", inst, sample={"size_lower_bound": lo, "facts": ["%s %s %s" % (a, p, b) for p, a, b in lits][:4]})
        else:
            chk.fail("R-RN-SIZE", inst, "crypt_rn reaches do_crypt with size possibly as small as %d (struct crypt_data needs %d): a negative or too-small size is not refused with ERANGE (facts on the way: %s)" % (
                lo, need, ["%s %s %s" % (a, p, b) for p, a, b in lits][:4]), "lib/crypt.c:%d" % c.line)


def no_write_after_err(chk, m, S, flavour, roles=None):
    """mirror image: once a function has stored a failure code into errno itself, no path may still reach a write into
    the result buffer (the result would overwrite the failure token while the call reports failure, or the reverse)"""
    R = "R-NO-WRITE-AFTER-ERR"
    roles = roles if roles is not None else buffer_roles(m, S)
    crm = S.const_ret_map()
    for fn, k in sorted(roles):
        F = m.functions[fn]
        W = S.write_sites(F, k)
        E = [e for e in S.errno_sites(F) if e[1] == "store" and isinstance(e[2], int) and e[2] != 0]
        inst = "%s:%s(%s)" % (flavour, fn, F.vname(k))
        if not W or not E:
            chk.ok(R, inst)
            continue
        pf = ir.PathFinder(F, const_ret=crm)
        wids = {w.id: w for w in W}
        bad = None
        def accept(st, trail, F=F):
            if F.name in RELOAD_OK:
                # contradictory facts about two loads of the same scratch field: infeasible (see RELOAD_OK)
                lits = [ir.atom_str(F, a, st) for a in st.facts]
                for p1, a1, b1 in lits:
                    if p1 == "ne" and b1 == "0" and a1.startswith("load(") and ("eq", a1, "0") in lits:
                        return False
            return True
        for e in E:
            p = pf.search(e[0], lambda I: I.id in wids and I.id != e[0].id, blockers=(), start_state=pf.dominating_facts(e[0].block), accept=accept)
            if p is not None:
                bad = (e, p)
                break
        if bad:
            e, p = bad
            w = wids[p[-1][1].id]
            chk.fail(R, inst, "%s stores the failure code %d into errno at line %d and can still write the result buffer afterwards (line %d, %s)" % (fn, e[2], e[0].line, w.line, w.callee or w.op),
                     common.loc(e[0]), ir.path_desc(F, p))
        else:
            chk.ok(R, inst, sample={"function": fn, "buffer": F.vname(k), "failure_stores": len(E), "write_sites": len(W)})


def must_write_or_err(m, S, fn, k, memo, crm):
    """True if every path entry->ret of fn writes buffer k or sets errno (directly / transitively / libc)."""
    key = (fn, k)
    if key in memo:
        return memo[key]
    memo[key] = (True, None)      # optimistic for (impossible) recursion
    F = m.functions[fn]
    der = F.based_on([k]) if k is not None else set()
    good = set()
    wgood = set()        # the subset that writes the buffer itself
    restores = []        # stores of a non-constant value into errno (the save / restore idiom)
    for I in F.all_insts():
        if I.op == "store":
            if I.ops[1][0] == "v" and I.ops[1][1] in der:
                good.add(I.id)
                wgood.add(I.id)
            J = F.insts.get(I.ops[1][1]) if I.ops[1][0] == "v" else None
            if J is not None and J.is_call and J.callee == "__errno_location":
                c = ir.cval(I.ops[0], signed=True)
                if c is None:
                    # restoring a saved errno defines nothing: the saved value may be 0 or a stale code.  It is harmless
                    # after the result has been written (bcrypt restores errno after its self-test, on the success path)
                    restores.append(I)
                elif c != 0:
                    good.add(I.id)
        elif I.is_call:
            cal = S.callees_of(F, I)
            if not cal:
                continue
            allok = True
            for c in cal:
                if c in m.functions:
                    # which param of callee receives the buffer?
                    ks = [ai for ai, a in enumerate(I.ops) if a[0] == "v" and a[1] in der]
                    ok = False
                    for ck in (ks or [None]):
                        r, _ = must_write_or_err(m, S, c, ck, memo, crm)
                        if r and (ck is not None or S.may_err(c)):
                            ok = ok or (ck is not None) or _always_errs(m, S, c, memo, crm)
                    if not ok:
                        allok = False
                else:
                    if not any(a[0] == "v" and a[1] in der for a in I.ops) or ext_no_write(c):
                        allok = False
            if allok:
                good.add(I.id)
                if any(a[0] == "v" and a[1] in der for a in I.ops):
                    wgood.add(I.id)
    pf = ir.PathFinder(F, const_ret=crm)
    # a restore that can be reached before the buffer has been written may discard the errno of a failed libc call made
    # earlier in this function: the failure facts below then prove nothing here
    early_restore = None
    for I in restores:
        if ir.PathFinder(F, const_ret=crm).search(F.entry, lambda X, I=I: X.id == I.id, blockers=wgood) is not None:
            early_restore = I
            break

    def accept(st, trail, F=F):
        # a path that observed the failure of a libc-backed resource call has errno from libc (E-ext)
        lits = [ir.atom_str(F, a, st) for a in st.facts]
        if F.name in RELOAD_OK:
            # contradictory facts about two loads of the same field: infeasible (see RELOAD_OK)
            for p1, a1, b1 in lits:
                if p1 == "ne" and b1 == "0" and a1.startswith("load(") and ("eq", a1, "0") in lits:
                    return False
        for a in ([] if early_restore is not None else st.facts):
            p_, a_, b_ = ir.atom_str(F, a, st)
            for pat_p, pat_a, why in LIBC_FAIL_FACTS:
                if p_ == pat_p and b_ == "0" and re.match(pat_a, a_):
                    return False
        return True
    p = pf.search(F.entry, lambda I: I.op == "ret", blockers=good, accept=accept)
    memo[key] = (p is None, p)
    return memo[key]


# branch facts under which errno has been set by libc (shape of these wrappers is checked by C15's R-ALLOC-CHECKED)
LIBC_FAIL_FACTS = [
    ("ne", r"^(?:_crypt_)?yescrypt_free_local\(", "non-zero only when munmap failed (errno from libc)"),
    ("ne", r"^free_region\(", "non-zero only when munmap failed"),
    ("eq", r"^alloc_region\(", "NULL only when mmap failed (errno from libc)"),
    ("eq", r"^(?:malloc|realloc|calloc)\(", "allocation failure: errno ENOMEM from libc"),
    ("ne", r"^munmap\(", "errno from libc"),
]


# functions that re-load a scratch field around a call that cannot modify it (confirmed by reading)
RELOAD_OK = {
    "_crypt_crypt_yescrypt_rn": "intbuf->retval is re-read after yescrypt_free_local(&intbuf->local), which only touches intbuf->local",
    "crypt_yescrypt_rn": "same (static flavour)",
    "_crypt_crypt_gost_yescrypt_rn": "same pattern in the gost wrapper",
    "crypt_gost_yescrypt_rn": "same (static flavour)",
}


def ext_no_write(c):
    return summ.ext_key(c) not in summ.EXT_WRITES


def _always_errs(m, S, fn, memo, crm):
    r, _ = must_write_or_err(m, S, fn, None, memo, crm)
    return r


def err_set(chk, m, S, flavour, roles):
    R = "R-ERR-SET"
    crm = S.const_ret_map()
    memo = {}
    tbl = m.hash_table()
    slots = set()
    for r in tbl["rows"]:
        if r["crypt"]:
            slots.add((m.resolve(r["crypt"]), 4))
        if r["gensalt"]:
            slots.add((m.resolve(r["gensalt"]), 3))
    for fn, k in sorted(slots):
        if k == 3:
            continue      # gensalt writers: decided for every input by the XAI grid (X-ERR / X-TOK below)
        ok, p = must_write_or_err(m, S, fn, k, memo, crm)
        F = m.functions[fn]
        inst = "%s:%s" % (flavour, fn)
        if ok:
            chk.ok(R, inst, sample={"function": fn, "rule": "every return has written the buffer or stored errno"})
        else:
            chk.fail(R, inst, "%s can return at line %d without having produced a result and without setting errno" % (fn, p[-1][1].line),
                     common.loc(p[-1][1]), ir.path_desc(F, p))
    # entry points: early returns set errno
    for name, worker in (("do_crypt", None), ("crypt_rn", "do_crypt"), ("crypt_gensalt_rn", None)):
        F = common.sym(m, name)
        if worker:
            goals = {c.id for c in F.calls(worker)}
        else:
            goals = {I.id for I in F.all_insts() if I.is_call and I.callee is None and I.d.get("asm") is None}
        good = set(goals)
        for I, kind, val in S.errno_sites(F, include_ext=True):
            if kind == "store" and val not in (EINVAL, ERANGE, ENOMEM, 5, 38):
                chk.fail(R, "%s:%s:errno%d" % (flavour, name, val), "%s stores the undocumented errno value %d" % (name, val), common.loc(I))
            good.add(I.id)
        # get_random_bytes failure inside crypt_gensalt_rn: callee sets errno (ENOSYS) in configurations where it can fail
        for c in F.calls():
            if (c.callee or "").endswith("get_random_bytes"):
                good.add(c.id)
        pf = ir.PathFinder(F, const_ret=crm)
        p = pf.search(F.entry, lambda I: I.op == "ret", blockers=good)
        inst = "%s:%s:early" % (flavour, name)
        if p is not None:
            chk.fail(R, inst, "%s returns at line %d before hashing without storing errno" % (name, p[-1][1].line), common.loc(p[-1][1]), ir.path_desc(F, p))
        else:
            chk.ok(R, inst)
    # all constant errno stores in the library are documented values
    vals = {}
    for F in m.functions.values():
        for I, kind, val in S.errno_sites(F):
            if kind == "store":
                vals.setdefault(val, []).append(common.loc(I))
    for v, locs in sorted(vals.items()):
        if v not in (EINVAL, ERANGE, ENOMEM, 5, 38):
            chk.fail(R, "%s:errno-value-%d" % (flavour, v), "errno value %d stored at %s is not a documented error code" % (v, locs[0]), locs[0])
        else:
            chk.count(R, len(locs), ["%s:errno%d" % (flavour, v)])
    return vals


def filter_dom(chk, m, flavour):
    R = "R-FILTER-DOM"
    F = common.sym(m, "do_crypt")
    ind = [I for I in F.all_insts() if I.is_call and I.callee is None and I.d.get("asm") is None]
    IC = ind[0]
    pf = ir.PathFinder(F)
    st = pf.dominating_facts(IC.block)
    lits = [ir.atom_str(F, a, st) for a in st.facts]
    P0, P1 = F.params[0]["name"], F.params[1]["name"]
    need = {
        "phrase != NULL": lambda p, a, b: (p, a, b) == ("ne", P0, "0"),
        "setting != NULL": lambda p, a, b: (p, a, b) == ("ne", P1, "0"),
        "strlen(phrase) < 512": lambda p, a, b: a == "strlen(%s)" % P0 and ((p == "ult" and b == "512") or (p == "ule" and b == "511")),
        "check_badsalt_chars(setting) == 0": lambda p, a, b: (p, a, b) == ("eq", "check_badsalt_chars(%s)" % P1, "0"),
        "get_hashfn(setting) != NULL": lambda p, a, b: (p, a, b) == ("ne", "get_hashfn(%s)" % P1, "0"),
    }
    for what, pred in need.items():
        if any(pred(*l) for l in lits):
            chk.ok(R, "%s:%s" % (flavour, what), sample={"dominating_fact": what})
        else:
            chk.fail(R, "%s:%s" % (flavour, what), "the method call in do_crypt is not guarded by `%s` (dominating facts: %s)" % (what, lits), common.loc(IC))
    # the limit equals CRYPT_MAX_PASSPHRASE_SIZE of the regenerated header
    return lits


def filter_spec(chk, m, info):
    R = "R-FILTER-SPEC"
    F = common.sym(m, "check_badsalt_chars")
    cells = [xai.simple_cell("b%d" % b, F.name, [xai.cstr_region("s", bytes([b]))], [{"ptr": "s"}]) for b in range(1, 256)]
    cells.append(xai.simple_cell("empty", F.name, [xai.cstr_region("s", b"")], [{"ptr": "s"}]))
    # position independence: the same byte at position 1, 2 and 5 of otherwise clean strings
    for b in sorted(REJECT - {0}):
        for pos, pre in ((1, b"a"), (5, b"$6$ab")):
            cells.append(xai.simple_cell("p%d_%d" % (pos, b), F.name, [xai.cstr_region("s", pre + bytes([b]) + b"z")], [{"ptr": "s"}]))
    res = xai.run_cells(info["bc"], cells, {})
    for cid, c in res.items():
        if len(c["paths"]) != 1 or c["paths"][0]["alarms"]:
            raise AnalysisBroken("check_badsalt_chars could not be evaluated on cell %s: %s" % (cid, c["paths"][:1]))
    for b in range(1, 256):
        r = res["b%d" % b]["paths"][0]["ret"]
        rejected = r != "int:0..0"
        definite = not rejected or (r.startswith("int:") and "0.." not in r.replace("int:", "", 1)[:2] and not r.startswith("int:0"))
        want = b in REJECT
        if rejected != want:
            chk.fail(R, "byte-%02x" % b, "check_badsalt_chars %s the byte 0x%02x (%r); crypt(5)/property %s it" % ("rejects" if rejected else "accepts", b, chr(b), "rejects" if want else "accepts"),
                     "%s:%d" % (common.short(F.file), F.line))
        else:
            chk.ok(R, "byte-%02x" % b)
    if res["empty"]["paths"][0]["ret"] != "int:0..0":
        chk.fail(R, "empty", "check_badsalt_chars rejects the empty string", common.short(F.file))
    for cid, c in res.items():
        if cid.startswith("p"):
            if c["paths"][0]["ret"] == "int:0..0":
                chk.fail(R, "pos-" + cid, "a rejected byte is accepted when it is not the first character (%s)" % cid, common.short(F.file))
            else:
                chk.ok(R, "pos-" + cid)
    # scan shape: single loop, callee set
    callees = {c.callee for c in F.calls() if not (c.callee or "").startswith("llvm.")}
    if not callees <= {"strcspn", "strlen", "strspn", "check_salt_char"}:
        chk.fail(R, "callees", "check_badsalt_chars calls %s" % sorted(callees), common.short(F.file))


def null_iff_star(chk, m, flavour):
    R = "R-NULL-IFF-STAR"
    for name in ("crypt_rn", "crypt_ra"):
        F = common.sym(m, name)
        cells = [p["id"] for p in F.params if p["ty"].endswith("**") or p["ty"] == "i32*"] if name == "crypt_ra" else []
        paths = ir.enumerate_paths(F, cells=cells)
        n = 0
        for lits, rv, st, trail in paths:
            ev = st.phis.get("events", []) if cells else None
            # does the path call do_crypt?
            called = None
            for b in trail:
                for I in F.blocks[b]:
                    if I.is_call and I.callee == "do_crypt":
                        called = I
            if called is None:
                continue
            n += 1
            obj = ir.expr(F, ir.PathFinder(F).resolve(called.ops[2], st), 6, st.phis)
            ls = [ir.atom_str(F, a, st) for a, T, t in lits]
            star = [l for l in ls if re.fullmatch(r"(?:sext|zext)\(load\(%s\)\)" % re.escape(obj), l[1]) and l[2] == "42"]
            r = ir.expr(F, rv, 6, st.phis) if rv else None
            inst = "%s:%s:path%d" % (flavour, name, n)
            if not star:
                chk.fail(R, inst, "%s returns %s on a path that never tests output[0] == '*'" % (name, r), common.loc(F.blocks[trail[-1]][-1]))
                continue
            is_star = star[-1][0] == "eq"
            if (is_star and r != "NULL") or (not is_star and r != obj):
                chk.fail(R, inst, "%s returns %s although output[0] %s '*'" % (name, r, "==" if is_star else "!="), common.loc(F.blocks[trail[-1]][-1]))
            else:
                chk.ok(R, inst, sample={"function": name, "output[0]=='*'": is_star, "returns": r})
        if n < 2:
            raise AnalysisBroken("%s: fewer than 2 hashing paths" % name)


def token_cells(chk, m, info):
    R = "X-TOKEN"
    F = common.sym(m, "make_failure_token")
    heads = {"NULL": None, "empty": b"", "star0": b"*0", "star1": b"*1", "star": b"*", "star0x": b"*0abc", "dollar": b"$6$abc", "any": b""}
    cells = []
    for hn, h in heads.items():
        regs = [{"name": "out", "kind": "buf", "size_root": 0, "prov": "other"}]
        args = []
        if h is None:
            args.append({"null": True})
        else:
            regs.append(xai.cstr_region("s", h, tail=(hn in ("any",)), tailtrack=4))
            args.append({"ptr": "s"})
        args += [{"ptr": "out"}, {"root": 0}]
        cells.append(xai.simple_cell(hn, F.name, regs, args, roots=[{"name": "size", "lo": xai.INT_MIN, "hi": xai.INT_MAX, "prov": "size"}]))
    res = xai.run_cells(info["bc"], cells, {"reportRegion": "out"})
    for hn, h in heads.items():
        for p in res[hn]["paths"]:
            size = p["roots"][0]
            inst = "%s|size=[%d,%d]" % (hn, size[0], size[1])
            if p["alarms"]:
                chk.fail(R, inst, "make_failure_token: %s" % p["alarms"][0]["msg"], "lib/util-make-failure-token.c:%d" % p["alarms"][0]["line"])
                continue
            chars, term = xai.out_string(p.get("out", []))
            tok = bytes(next(iter(s)) for s, pr in chars) if all(len(s) == 1 for s, pr in chars) else None
            if size[1] <= 0:
                ok = not p["wrote"]
                why = "writes although size <= 0"
            elif size[0] >= 3:
                want = b"*1" if (h is not None and h[:2] == b"*0") else b"*0"
                if hn == "any":
                    ok = term and tok in (b"*0", b"*1")
                else:
                    ok = term and tok == want
                why = "token %r, expected %r" % (tok, want)
            elif size == (2, 2):
                ok = term and tok == b"*"
                why = "token %r, expected '*'" % tok
            elif size == (1, 1):
                ok = term and tok == b""
                why = "token %r, expected empty string" % tok
            else:
                ok, why = False, "size box %s not split at 1/2/3" % (size,)
            if ok and tok and size[0] >= 3:
                ok = tok[0] in REJECT and len(tok) < 13 and (h is None or hn == "any" or tok != h[:len(tok) + 1].rstrip(b"\0") or h[:len(tok)] != tok or len(h) != len(tok))
                if h is not None and hn != "any" and h == tok:
                    ok = False
                why = "token %r equals the setting or is not itself rejected" % tok
            if ok:
                chk.ok(R, inst, sample={"setting": hn, "size": list(size), "token": tok.decode() if tok is not None else None})
            else:
                chk.fail(R, inst, "make_failure_token(setting=%s, size in %s): %s" % (hn, list(size), why), "lib/util-make-failure-token.c")


def run(chk, tier):
    chk.explanation = __doc__
    for r, d in (("R-TOKEN-FIRST", "failure token dominates hashing and every result-bearing return"),
                 ("R-NO-ERR-AFTER-WRITE", "no feasible path from a write into the result buffer to an errno store"),
                 ("R-ERR-SET", "every return without a result has stored a documented errno"),
                 ("R-FILTER-DOM", "method call dominated by NULL / length / character / lookup rejections"),
                 ("R-FILTER-SPEC", "check_badsalt_chars == documented reject set (256 abstract evaluations + position cells)"),
                 ("R-NULL-IFF-STAR", "crypt_rn/crypt_ra return NULL iff output[0]=='*'"),
                 ("R-NO-WRITE-AFTER-ERR", "once a function has stored a failure code into errno itself, no path still reaches a write into the result buffer"),
                 ("R-RN-SIZE", "crypt_rn reaches the worker only with size >= sizeof(struct crypt_data) as a signed number"),
                 ("X-TOKEN", "make_failure_token over all sizes and setting heads")):
        chk.rule(r, d)
    for flavour in ("shared", "static"):
        m, info = common.prog(flavour)
        S = summ.Summaries(m)
        token_first(chk, m, flavour)
        roles = no_err_after_write(chk, m, S, flavour)
        no_write_after_err(chk, m, S, flavour, roles)
        rn_size(chk, m, flavour)
        vals = err_set(chk, m, S, flavour, roles)
        lits = filter_dom(chk, m, flavour)
        null_iff_star(chk, m, flavour)
        chk.note(flavour, {"buffer_role_functions": len(roles), "errno_constant_stores": {str(k): len(v) for k, v in vals.items()}})
    m, info = common.prog("shared")
    filter_spec(chk, m, info)
    token_cells(chk, m, info)
    # gensalt side: errno and token on every failing abstract path of the gensalt grid
    from .. import gensalt_grid as G, gensalt_oracle as O
    from ..report import Check
    g = G.run(tier)
    O.engine_health(chk, g)
    sub = Check("C05", tier)
    sub.known = {}
    O.c13(sub, g)
    for v in sub.violations:
        if v["rule"] in ("X-ERR", "X-TOK"):
            chk.fail(v["rule"] + "-GENSALT", v["instance"], v["message"], v["loc"], v["detail"])
    for r in ("X-ERR", "X-TOK"):
        chk.count(r + "-GENSALT", sub.rules[r]["ok"], ["grid"])
    chk.rules["X-ERR-GENSALT"]["desc"] = "gensalt grid: NULL return => errno in {EINVAL, ERANGE}"
    chk.rules["X-TOK-GENSALT"]["desc"] = "gensalt grid: NULL return => failure token intact"
    # malformed parameters: near-miss settings (one salt / cost character outside the field's alphabet) must be refused
    from .. import compose_grid as CG
    nm = CG.run_near_miss(tier)
    per = CG.near_miss_oracle(chk, nm)
    if len(per) < 6:
        raise AnalysisBroken("near-miss grid decided only %d methods" % len(per))
    chk.note("near_miss", {"cells": nm["ncells"], "per_method": per, "engine_wall_s": round(nm["wall"], 1)})
    chk.floor("R-NO-ERR-AFTER-WRITE", 60)
    chk.floor("R-ERR-SET", 40)
    chk.assumptions += ["libc sets errno (ENOMEM) when malloc/realloc/mmap fail and (EINVAL) when munmap fails",
                        "'never the hash of an earlier call' follows from R-TOKEN-FIRST + R-NO-ERR-AFTER-WRITE: on a failing path the only write to the buffer since entry is the token",
                        "behaviour of crypt/crypt_r under --disable-failure-tokens is the thorough tier's configuration axis"]
