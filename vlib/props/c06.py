"""C06 - successful hashes are well-formed: on every succeeding abstract path of the crypt grid the result bytes are alphabet-clean (byte sets tracked through the encoding tables and the filter-clean setting), start with the method prefix, never with '*', and are NUL-terminated within 384 bytes; alphabets are checked as tables."""
from .. import crypt_grid as K, crypt_oracle as O, common, ir
from ..report import AnalysisBroken, Check

LEVEL = "other"
TECHNIQUE = "abstract interpretation of the LLVM IR (XAI: intervals x known bits x byte sets, symbolic lengths, loop summarisation by widening, digest contracts) with obligations on every memory access"


def run(chk, tier):
    chk.explanation = __doc__
    g = K.run(tier)
    O.health(chk, g)
    O.c06(chk, g)
    extra(chk, g, tier)
    chk.note("grid", {"cells": g["ncells"], "abstract_paths": sum(c["npaths"] for c in g["res"].values()),
                      "deduplicated_states": sum(c.get("ndedup", 0) for c in g["res"].values()),
                      "engine_wall_s": round(g["wall"], 1), "from_cache": g.get("cached", False),
                      "methods": sorted({m["base"] for m in g["meta"].values()}),
                      "alignments": sorted({m["align"] for m in g["meta"].values()}),
                      "NOT_covered": K.UNCOVERED})
    chk.note("cleanliness_not_decided_for", O.CLEAN_UNDECIDED)
    chk.trusted_base = ["clang 14 front end", "LLVM sroa/mem2reg", "LLVM ConstantRange/KnownBits", "src/xai*.{cc,h}", "digest contracts in vlib/crypt_grid.py", "vlib/crypt_oracle.py"]
    chk.assumptions += ["phrase and setting are NUL-terminated strings; reads of these two strings carry no obligation (over-reads of caller strings are NOT decided)",
                        "the setting passed check_badsalt_chars (C05 R-FILTER-SPEC / R-FILTER-DOM establish that summary); the digest primitives obey their contracts (read (ptr,len), write result and context of their declared size)",
                        "crypt paths of yescrypt ($y$) and gost-yescrypt ($gy$) are NOT covered: %s" % K.UNCOVERED,
                        "uninitialised reads of scratch and signed-overflow UB inside digest rounds are NOT decided"]


def extra(chk, g, tier):
    m = g["module"]
    # alphabets as compiled
    names = {"_crypt_ascii64": 64, "BF_itoa64": 64, "itoa64": 64}
    found = 0
    for gl in m.d["globals"]:
        src = gl.get("src", gl["name"])
        if src in ("ascii64", "BF_itoa64", "itoa64") and gl["const"] and gl.get("init"):
            b = bytes.fromhex(gl["init"])[:64]
            found += 1
            if len(set(b)) != 64 or not set(b) <= K.A64:
                chk.fail("R-ALPHABETS", src + "@" + common.short(gl.get("file", "")), "alphabet table %s is not 64 distinct characters of ./0-9A-Za-z" % src, common.short(gl.get("file", "")))
            else:
                chk.ok("R-ALPHABETS", src + "@" + common.short(gl.get("file", "")), sample=b.decode())
    chk.rules.setdefault("R-ALPHABETS", {"instances": 0, "ok": 0, "desc": ""})["desc"] = "encoding alphabets are 64 distinct passwd-safe characters"
    if found < 1:
        raise AnalysisBroken("no alphabet table found")
