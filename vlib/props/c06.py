"""C06 - successful hashes are well-formed: on every succeeding abstract path of the crypt grid the result bytes are alphabet-clean (byte sets tracked through the encoding tables and the filter-clean setting), start with the method prefix, never with '*', and are NUL-terminated within 384 bytes; alphabets are checked as tables."""
from .. import crypt_grid as K, crypt_oracle as O, common, ir
from ..report import AnalysisBroken, Check

LEVEL = "other"
TECHNIQUE = "abstract interpretation of the LLVM IR (XAI: intervals x known bits x byte sets, symbolic lengths, loop summarisation by widening, digest contracts) with obligations on every memory access"


def run(chk, tier):
    chk.explanation = __doc__
    g = K.run(tier)
    O.health(chk, g)
    O.c06(chk, g)
    gen_shape(chk, tier)
    # a malformed setting that is hashed nevertheless yields a result outside the method's shape (more fields, foreign
    # characters): the near-miss grid of C05 is evaluated here as well
    from .. import compose_grid as CG
    sub = Check("C06", tier)
    sub.known = {}
    CG.near_miss_oracle(sub, CG.run_near_miss(tier))
    chk.rule("X-SHAPE-NEARMISS", "no setting with a character outside a field's alphabet, a leading zero in a decimal cost or a '$' inside a fixed-alphabet salt produces a result (it would not have the method's shape)")
    for v in sub.violations:
        chk.fail("X-SHAPE-NEARMISS", v["instance"], v["message"], v["loc"], v["detail"])
    chk.count("X-SHAPE-NEARMISS", sub.rules["X-REJECT"]["ok"], ["near-miss"])
    chk.deferred += sub.deferred
    extra(chk, g, tier)
    chk.note("grid", {"cells": g["ncells"], "abstract_paths": sum(c["npaths"] for c in g["res"].values()),
                      "deduplicated_states": sum(c.get("ndedup", 0) for c in g["res"].values()),
                      "engine_wall_s": round(g["wall"], 1), "from_cache": g.get("cached", False),
                      "methods": sorted({m["base"] for m in g["meta"].values()}),
                      "alignments": sorted({m["align"] for m in g["meta"].values()}),
                      "NOT_covered": K.UNCOVERED})
    chk.note("cleanliness_not_decided_for", O.CLEAN_UNDECIDED)
    chk.trusted_base = ["clang 14 front end", "LLVM sroa/mem2reg", "LLVM ConstantRange/KnownBits", "src/xai*.{cc,h}", "digest contracts in vlib/crypt_grid.py", "vlib/crypt_oracle.py"]
    chk.assumptions += ["phrase and setting are NUL-terminated strings; reads of these two strings carry no obligation (over-reads of caller strings are NOT decided)",
                        "the setting passed check_badsalt_chars (C05 R-FILTER-SPEC / R-FILTER-DOM establish that summary); the digest primitives obey their contracts (read (ptr,len), write result and context of their declared size)",
                        "the crypt path of gost-yescrypt ($gy$) is NOT covered: %s; for yescrypt and scrypt the shape of results is decided for generated settings (X-GEN-SHAPE) and otherwise only bounded (X-LEN, X-PREFIX)" % K.UNCOVERED,
                        "uninitialised reads of scratch and signed-overflow UB inside digest rounds are NOT decided"]


def gen_shape(chk, tier):
    """settings that crypt_gensalt can produce have exact lengths, so the result is known position by position:
    <setting, possibly with its trailing '$' normalised>[$]<N digest characters>NUL"""
    from .. import compose_grid as CG, xai
    chk.rule("X-GEN-SHAPE", "hashing with a generated setting yields exactly: the setting, a '$' where the format has one, the method's fixed number of digest characters from its alphabet, NUL")
    cg = CG.run(tier)
    per = {}
    for cid, c in sorted(cg["res"].items()):
        mt = cg["meta"][cid]
        base = "K" + (mt["row"]["prefix"] or "des") if mt["row"]["prefix"] != "_" else "K_"
        if mt["row"]["prefix"] == "":
            base = "Kdes"
        sp = O.SHAPE.get(base)
        if sp is None:
            raise AnalysisBroken("no documented shape for %s (%s)" % (mt["method"], base))
        for p in c["paths"]:
            if not p["ret"].startswith("ptr:") or any(a["kind"] in O.HARD for a in p["alarms"]):
                continue
            ok, ln, chars = O.terminated(p)
            shown = xai.show(chars)[:150]
            where = {"cell": cid, "result": shown}
            if not ok or not (len(p.get("out", [])) > ln and p["out"][ln][0] == frozenset([0])):
                chk.fail("X-GEN-SHAPE", "%s|term" % mt["method"], "%s: result %s has no definite terminator" % (mt["method"], shown), "lib/", where)
                continue
            if sp["digest"] is None:      # bcrypt: fixed total length and positional alphabet
                al = O.ALPHA[base]
                bad = ln != sp["max"] or any(not (s_ <= al[i]) for i, (s_, pr) in enumerate(chars))
            else:
                n = 0
                while n < ln and chars[ln - 1 - n][1] == O.P_DIGEST:
                    n += 1
                want = n if sp["digest"] == "11k" and n % 11 == 0 and 11 <= n <= 176 else sp["digest"]
                dal = O.HEX if base == "K$3$" else K.A64
                bad = n != want or any(not (s_ <= dal) for s_, pr in chars[ln - n:]) or ln - n < len(mt["row"]["prefix"])
                # what precedes the digest is the generated setting (X-ECHO of C10 compares it cell by cell); here: its length
                pat = list(mt["pattern"])
                while pat and pat[-1] == frozenset([ord("$")]):
                    pat.pop()
                head = ln - n
                if not bad and not (len(pat) <= head <= len(mt["pattern"]) + 2):
                    bad = True
            if bad:
                chk.fail("X-GEN-SHAPE", "%s|len%d" % (mt["method"], len(mt["pattern"])), "%s: hashing with the generated setting %s gives %s, not <setting>[$]<%s digest characters>" % (mt["method"], xai.show([(x, 0) for x in mt["pattern"]])[:80], shown, sp["digest"] or "fixed 60-char layout"), "lib/", where)
            else:
                chk.count("X-GEN-SHAPE", 1, [mt["method"]])
                per[mt["method"]] = per.get(mt["method"], 0) + 1
    if len(per) < 8:
        raise AnalysisBroken("X-GEN-SHAPE decided only %d methods" % len(per))
    chk.note("generated_settings_decided", per)


def extra(chk, g, tier):
    m = g["module"]
    # alphabets as compiled
    names = {"_crypt_ascii64": 64, "BF_itoa64": 64, "itoa64": 64}
    found = 0
    for gl in m.d["globals"]:
        src = gl.get("src", gl["name"])
        if src in ("ascii64", "BF_itoa64", "itoa64") and gl["const"] and gl.get("init"):
            b = bytes.fromhex(gl["init"])[:64]
            found += 1
            if len(set(b)) != 64 or not set(b) <= K.A64:
                chk.fail("R-ALPHABETS", src + "@" + common.short(gl.get("file", "")), "alphabet table %s is not 64 distinct characters of ./0-9A-Za-z" % src, common.short(gl.get("file", "")))
            else:
                chk.ok("R-ALPHABETS", src + "@" + common.short(gl.get("file", "")), sample=b.decode())
    chk.rules.setdefault("R-ALPHABETS", {"instances": 0, "ok": 0, "desc": ""})["desc"] = "encoding alphabets are 64 distinct passwd-safe characters"
    if found < 1:
        raise AnalysisBroken("no alphabet table found")
