"""C07 - hashing is a pure function of its inputs across entry points and call history.

R-FUNNEL    crypt == crypt_r(key, setting, &static); crypt_r / crypt_rn / crypt_ra each make
            exactly one call do_crypt(phrase, setting, obj) with their own unchanged first two
            parameters, and use phrase/setting for nothing else (except the failure token);
            do_crypt hands (phrase, strlen(phrase), setting, strlen(setting), obj->output, 384,
            aligned(obj->internal), size) to the selected method.
R-GLOBALS   the complete list of mutable static objects is computed; each one may be
            referenced only by its frozen owner set, and none is reachable from the worker
            (do_crypt / crypt_gensalt_rn / checksalt), so no earlier call can leave state a later
            call observes other than through the caller's own objects.
R-NO-READ-FIELDS  the library never loads from reserved / initialized / setting / input of
            struct crypt_data, and never computes an address in setting / input at all.
R-GENSALT-STATIC  crypt_gensalt's static buffer and crypt's static object are distinct
            objects with disjoint referrers (gensalt's result may be handed to crypt).
"""
import re
from .. import common, ir
from ..report import AnalysisBroken
from . import c08

LEVEL = "other"
TECHNIQUE = "SSA argument-identity (funnel) rule + who-may-reference analysis of mutable globals + typed field-access census"

# frozen owner table: mutable static object (scope.name as in the source) -> functions that may reference it
OWNERS = {
    "crypt.nr_crypt_ctx": {"crypt"},
    "crypt_gensalt.output": {"crypt_gensalt"},
    ".nr_encrypt_ctx": {"setkey", "encrypt"},
    # yescrypt's non-reentrant convenience API: compiled but unreachable from libcrypt's entry points
    "yescrypt.buf": {"yescrypt"},
    "yescrypt_encode_params.buf": {"yescrypt_encode_params"},
    "yescrypt_digest_shared.digest": {"yescrypt_digest_shared"},
}


def gname(g):
    return "%s.%s" % (cname(g.get("scope", "")), g.get("src", g["name"]))


def cname(fname):
    return fname[len("_crypt_"):] if fname.startswith("_crypt_") else fname


def funnel(chk, m, flavour):
    R = "R-FUNNEL"
    dc = common.sym(m, "do_crypt")
    # crypt -> crypt_r
    f = common.sym(m, "crypt")
    calls = [c for c in f.calls() if not (c.callee or "").startswith("llvm.")]
    ok = len(calls) == 1 and m.resolve(calls[0].callee or "") == common.sym(m, "crypt_r").name
    if ok:
        c = calls[0]
        ok = c.ops[0] == ["v", 0] and c.ops[1] == ["v", 1] and c.ops[2][0] == "g"
        rets = f.rets()
        ok = ok and all(r.ops and r.ops[0] == ["v", c.id] for r in rets)
        ok = ok and all(U.id == c.id for p in (0, 1) for U in f.users(p))
    if ok:
        chk.ok(R, "%s:crypt" % flavour, sample="crypt(key,setting) = crypt_r(key, setting, &%s)" % calls[0].ops[2][1])
    else:
        chk.fail(R, "%s:crypt" % flavour, "crypt is not the plain forwarding call crypt_r(key, setting, &static object)", common.short(f.file) + ":%d" % f.line)
    for name in ("crypt_r", "crypt_rn", "crypt_ra"):
        f = common.sym(m, name)
        dcs = list(f.calls("do_crypt"))
        inst = "%s:%s" % (flavour, name)
        if len(dcs) != 1:
            chk.fail(R, inst, "%s has %d calls to do_crypt (expected exactly 1)" % (name, len(dcs)), common.short(f.file) + ":%d" % f.line)
            continue
        c = dcs[0]
        bad = []
        if c.ops[0] != ["v", 0]:
            bad.append("phrase argument is %s, not the caller's phrase" % ir.expr(f, c.ops[0]))
        if c.ops[1] != ["v", 1]:
            bad.append("setting argument is %s, not the caller's setting" % ir.expr(f, c.ops[1]))
        for U in f.users(0):
            if U.id != c.id:
                bad.append("phrase also used by %s at line %d" % (U.callee or U.op, U.line))
        for U in f.users(1):
            if U.id == c.id:
                continue
            if U.is_call and U.callee in ("_crypt_make_failure_token", "make_failure_token") and U.ops[0] == ["v", 1]:
                continue
            bad.append("setting also used by %s at line %d" % (U.callee or U.op, U.line))
        # other calls allowed in the wrapper
        allowed = {"do_crypt", "_crypt_make_failure_token", "__errno_location", "explicit_bzero", "realloc"}
        for k in f.calls():
            cal = k.callee or "?"
            if cal in allowed or cal.startswith("llvm.mem") or cal.startswith("llvm.dbg"):
                continue
            bad.append("unexpected call to %s" % cal)
        # the return value is NULL or the object's output field (offset 0 of the object passed to do_crypt)
        obj = f.strip_casts(c.ops[2])
        for r in f.rets():
            vals = ret_values(f, r.ops[0])
            for v in vals:
                if v[0] == "n":
                    continue
                vv = f.strip_casts(v)
                if vv != obj:
                    bad.append("returns %s which is not the output field of the object given to do_crypt" % ir.expr(f, v))
        if bad:
            for b in bad:
                chk.fail(R, inst + ":" + re.sub(r"\W+", "_", b)[:40], "%s: %s" % (name, b), common.loc(c))
        else:
            chk.ok(R, inst, sample="%s: do_crypt(phrase, setting, %s)" % (name, ir.expr(f, c.ops[2])))
    # do_crypt -> method
    ind = [I for I in dc.all_insts() if I.is_call and I.callee is None and I.d.get("asm") is None]
    inst = "%s:do_crypt" % flavour
    if len(ind) != 1:
        chk.fail(R, inst, "do_crypt has %d indirect calls (expected 1)" % len(ind), common.short(dc.file))
        return
    c = ind[0]
    a = [ir.expr(dc, o) for o in c.ops]
    P0, P1, P2 = (dc.params[i]["name"] for i in range(3))
    want = [P0, "strlen(%s)" % P0, P1, "strlen(%s)" % P1, P2, "384"]
    bad = [(i, a[i], want[i]) for i in range(6) if a[i] != want[i]]
    a6 = c.ops[6]
    ok6 = a6[0] == "v" and dc.insts.get(a6[1]) is not None
    if ok6:
        base = dc.strip_casts(a6)
        J = dc.insts.get(base[1]) if base[0] == "v" else None
        # alg_specific is field 0 of crypt_internal: strip_casts leaves the get_internal call
        ok6 = J is not None and J.is_call and J.callee == "get_internal" and J.ops[0] == ["v", 2]
    if bad or not ok6:
        for i, g, w in bad:
            chk.fail(R, inst + ":arg%d" % i, "do_crypt passes %s as argument %d of the method (expected %s)" % (g, i, w), common.loc(c))
        if not ok6:
            chk.fail(R, inst + ":arg6", "scratch argument is %s, expected get_internal(data)->alg_specific" % a[6], common.loc(c))
    else:
        chk.ok(R, inst, sample="h->crypt(%s)" % ", ".join(a))
    # target of the indirect call comes from get_hashfn(setting)
    tgt = ir.expr(dc, c.d["target"])
    if not re.match(r"^load\(get_hashfn\(%s\)\+16\)$" % re.escape(P1), tgt):
        chk.fail(R, inst + ":target", "method pointer is %s, expected get_hashfn(setting)->crypt" % tgt, common.loc(c))
    else:
        chk.ok(R, inst + ":target")


def ret_values(f, o, seen=None):
    seen = seen or set()
    if o[0] != "v":
        return [o]
    I = f.insts.get(o[1])
    if I is None:
        return [o]
    if I.id in seen:
        return []
    seen.add(I.id)
    if I.op == "phi":
        out = []
        for x, b in I.d["inc"]:
            out += ret_values(f, x, seen)
        return out
    if I.op == "select":
        return ret_values(f, I.ops[1], seen) + ret_values(f, I.ops[2], seen)
    return [o]


def globals_rule(chk, m, flavour):
    R = "R-GLOBALS"
    refs = m.global_refs()
    worker_roots = [common.sym(m, n).name for n in ("crypt_r", "crypt_rn", "crypt_ra", "crypt_gensalt_rn",
                                                     "crypt_gensalt_ra", "crypt_checksalt", "crypt_preferred_method")]
    W = m.reach(worker_roots)
    listed = []
    for g in m.d["globals"]:
        if not common.is_mutable_global(g):
            continue
        if c08.effectively_constant(m, g["name"], refs):
            chk.ok(R, "%s:%s:effectively-constant" % (flavour, gname(g)))
            continue
        key = gname(g)
        listed.append(key)
        users = {cname(fn) for fn, I, pos in refs.get(g["name"], [])}
        own = OWNERS.get(key)
        inst = "%s:%s" % (flavour, key)
        if own is None:
            chk.fail(R, inst, "new mutable static object %s (%d bytes, %s:%s) referenced by %s: state that outlives a call"
                     % (key, g["size"], common.short(g.get("file", "?")), g.get("line", "?"), sorted(users)),
                     "%s:%s" % (common.short(g.get("file", "?")), g.get("line", "?")))
            continue
        extra = users - own
        if extra:
            chk.fail(R, inst, "static object %s is referenced by %s, allowed owners are %s" % (key, sorted(extra), sorted(own)),
                     "%s:%s" % (common.short(g.get("file", "?")), g.get("line", "?")))
            continue
        inW = [u for u in users if ("_crypt_" + u) in W or u in W]
        if inW:
            chk.fail(R, inst, "static object %s is reachable from the re-entrant worker via %s" % (key, inW),
                     "%s:%s" % (common.short(g.get("file", "?")), g.get("line", "?")))
            continue
        chk.ok(R, inst, sample={"object": key, "size": g["size"], "referenced_by": sorted(users)})
    return listed


def static_uses(chk, m, flavour):
    """crypt's and crypt_gensalt's static objects are only passed as the object/buffer argument"""
    R = "R-GENSALT-STATIC"
    f = common.sym(m, "crypt_gensalt")
    calls = [c for c in f.calls() if not (c.callee or "").startswith("llvm.")]
    rn = common.sym(m, "crypt_gensalt_rn").name
    ok = len(calls) == 1 and m.resolve(calls[0].callee or "") == rn
    if ok:
        c = calls[0]
        ok = [c.ops[i] for i in range(4)] == [["v", i] for i in range(4)]
        buf = c.ops[4]
        while buf[0] == "e":
            buf = buf[2][0]
        ok = ok and buf[0] == "g" and ir.cval(c.ops[5]) == m.globals[buf[1]]["size"]
        ok = ok and all(r.ops[0] == ["v", c.id] for r in f.rets())
    if ok:
        chk.ok(R, "%s:crypt_gensalt" % flavour, sample="crypt_gensalt = crypt_gensalt_rn(prefix,count,rbytes,nrbytes,&static[%d],%d)" % (m.globals[buf[1]]["size"], ir.cval(c.ops[5])))
    else:
        chk.fail(R, "%s:crypt_gensalt" % flavour, "crypt_gensalt is not the plain forwarding call to crypt_gensalt_rn with its static buffer and that buffer's size", common.short(f.file))
    f2 = common.sym(m, "crypt_gensalt_ra")
    calls = list(f2.calls({rn, "crypt_gensalt_rn"}))
    if len(calls) == 1 and [calls[0].ops[i] for i in range(4)] == [["v", i] for i in range(4)]:
        chk.ok(R, "%s:crypt_gensalt_ra" % flavour)
    else:
        chk.fail(R, "%s:crypt_gensalt_ra" % flavour, "crypt_gensalt_ra does not forward (prefix,count,rbytes,nrbytes) unchanged to crypt_gensalt_rn", common.short(f2.file))


def fields_rule(chk, m, flavour):
    R = "R-NO-READ-FIELDS"
    names = ["output", "setting", "input", "reserved", "initialized", "internal"]
    census = {n: 0 for n in names}
    for F, I, k in common.crypt_data_field_geps(m):
        census[names[k]] += 1
        inst = "%s:%s:%s@%d" % (flavour, F.name, names[k], I.line)
        if k in (1, 2):
            chk.fail(R, inst, "%s computes an address inside the application-owned field `%s` of struct crypt_data" % (F.name, names[k]), common.loc(I))
            continue
        if k in (3, 4):
            der, uses = common.uses_closure(F, I.id)
            bad = None
            for v, U in uses:
                if U.op == "store" and U.ops[1][0] == "v" and U.ops[1][1] in der and ir.cval(U.ops[0]) == 0:
                    continue
                if U.is_call and U.callee == "explicit_bzero" and U.ops[0][0] == "v" and U.ops[0][1] in der:
                    continue
                bad = U
                break
            if bad is not None:
                chk.fail(R, inst, "%s %s field `%s` of struct crypt_data (only wiping it is allowed)" %
                         (F.name, "reads" if bad.op == "load" else "uses (%s)" % (bad.callee or bad.op), names[k]), common.loc(bad))
            else:
                chk.ok(R, inst)
        else:
            chk.ok(R, inst)
    return census


def run(chk, tier):
    chk.explanation = __doc__
    chk.rule("R-FUNNEL", "entry points forward unchanged (phrase, setting) to one worker; worker hands the documented 8 arguments to the method")
    chk.rule("R-GLOBALS", "every mutable static object has only its frozen owners and is unreachable from the re-entrant worker")
    chk.rule("R-NO-READ-FIELDS", "no load from reserved/initialized, no address into setting/input of struct crypt_data")
    chk.rule("R-GENSALT-STATIC", "crypt_gensalt forwards to crypt_gensalt_rn with its own static buffer")
    for flavour in ("shared", "static"):
        m, info = common.prog(flavour)
        funnel(chk, m, flavour)
        listed = globals_rule(chk, m, flavour)
        static_uses(chk, m, flavour)
        census = fields_rule(chk, m, flavour)
        chk.note(flavour, {"mutable_static_objects": listed, "crypt_data_field_address_computations": census})
        if census["output"] < 4 or census["internal"] < 2:
            raise AnalysisBroken("struct crypt_data field census too small (%s): type information lost" % census)
    # independence from the data object's previous content: the XAI crypt grid starts with the whole data object (and every
    # local) marked "never written" and reports any load / contract read of such a byte at an exact address
    from .. import crypt_grid as K, crypt_oracle as KO
    g = K.run(tier)
    KO.health(chk, g)
    chk.rule("X-INIT", "no method reads a byte of the data object (or of a local) that the call has not written before")
    nread = 0
    for cid, c in sorted(g["res"].items()):
        for p in c["paths"]:
            bad = [a for a in p["alarms"] if a["kind"] == "UNINIT"]
            for a in bad:
                chk.fail("X-INIT", "%s@%s:%d" % (g["meta"][cid]["base"], a["fn"], a["line"]), "%s line %d: %s [crypt_rn, %s]" % (a["fn"], a["line"], a["msg"], KO.desc(g, cid)),
                         "%s:%d" % (a["fn"], a["line"]), {"cell": cid})
            if not bad:
                nread += p["nR"]
    chk.count("X-INIT", nread, ["crypt-grid"])
    # methods the crypt grid leaves out (gost-yescrypt): the same obligation on the composition cells (exact-length settings)
    from .. import compose_grid as CG
    cg = CG.run(tier)
    ncomp = 0
    for cid, c in sorted(cg["res"].items()):
        if cg["meta"][cid]["row"]["prefix"] not in K.UNCOVERED:
            continue
        for p in c["paths"]:
            bad = [a for a in p["alarms"] if a["kind"] in ("UNINIT", "AMBIENT")]
            for a in bad[:2]:
                chk.fail("X-INIT" if a["kind"] == "UNINIT" else "X-AMBIENT", "%s@%s:%d" % (cg["meta"][cid]["method"], a["fn"], a["line"]), "%s line %d: %s [crypt_rn with a generated %s setting]" % (a["fn"], a["line"], a["msg"], cg["meta"][cid]["method"]),
                         "%s:%d" % (a["fn"], a["line"]), {"cell": cid})
            if not bad:
                ncomp += p["nR"]
    chk.count("X-INIT", ncomp, ["composition-grid"])
    chk.rule("X-RESULT-FRESH", "the returned string, terminator included, is written by this call (a result that runs on into bytes the object held before depends on the call history)")
    nfresh = 0
    for cid, c in sorted(g["res"].items()):
        for p in c["paths"]:
            if not p["ret"].startswith("ptr:") or any(a["kind"] in KO.HARD for a in p["alarms"]):
                continue
            ok, ln, chars = KO.terminated(p)
            if not ok:
                chk.fail("X-RESULT-FRESH", "%s" % g["meta"][cid]["base"], "crypt_rn returns a string whose terminator this call did not write: what follows the characters it wrote is the previous content of the output field [%s]" % KO.desc(g, cid), "lib/", {"cell": cid})
            else:
                nfresh += 1
    chk.count("X-RESULT-FRESH", nfresh, ["crypt-grid"])
    chk.rule("X-AMBIENT", "errno is never read before the call itself has stored to it (the caller's errno is ambient state)")
    namb = 0
    for cid, c in sorted(g["res"].items()):
        for p in c["paths"]:
            bad = [a for a in p["alarms"] if a["kind"] == "AMBIENT"]
            for a in bad:
                chk.fail("X-AMBIENT", "%s@%s:%d" % (g["meta"][cid]["base"], a["fn"], a["line"]), "%s line %d: %s [crypt_rn, %s]" % (a["fn"], a["line"], a["msg"], KO.desc(g, cid)),
                         "%s:%d" % (a["fn"], a["line"]), {"cell": cid})
            if not bad:
                namb += 1
    chk.count("X-AMBIENT", namb, ["crypt-grid"])
    from .. import gensalt_grid as GG
    gg = GG.run(tier)
    for cid, c in sorted(gg["res"].items()):
        for p in c["paths"]:
            for a in p["alarms"]:
                if a["kind"] == "AMBIENT":
                    chk.fail("X-AMBIENT", "gensalt@%s:%d" % (a["fn"], a["line"]), "%s line %d: %s [crypt_gensalt_rn, cell %s]" % (a["fn"], a["line"], a["msg"], cid), "%s:%d" % (a["fn"], a["line"]), {"cell": cid})
    chk.count("X-AMBIENT", sum(len(c["paths"]) for c in gg["res"].values()), ["gensalt-grid"])
    chk.note("crypt_grid", {"cells": g["ncells"], "not_covered": K.UNCOVERED})
    chk.floor("R-FUNNEL", 10)
    chk.floor("R-GLOBALS", 8)
    chk.assumptions += [
        "read-before-write of the data object is decided by X-INIT for the methods the crypt grid covers (not $y$/$gy$), for exact addresses and outside the contracted digest primitives; the wipes after each call are under C09",
        "untyped accesses through `void *data` (crypt_rn -> make_failure_token) are covered by C04's interpreter, not by the typed field census",
    ]
