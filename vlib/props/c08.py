"""C08 - re-entrant interfaces are thread-safe.

R-REENTRANT: whole-program, table-resolved call graph closure R of the
re-entrant API.  (1) no function in R references mutable global storage,
(2) every external callee is in the MT-Safe allow-list, (3) no inline asm,
(4) read-only tables reachable from R do not point at mutable storage.
Under (1)-(4) the only writable locations a call can touch are its arguments
and its own stack, so calls on distinct objects cannot race or interfere.
"""
from .. import common, ir
from ..report import AnalysisBroken

LEVEL = "proof"
TECHNIQUE = "whole-program call-graph closure + who-may-reference (effect) analysis on LLVM IR"

# glibc manual "MT-Safe" (possibly "locale"/"env"-qualified) functions the library uses today;
# one line of justification each.
MT_SAFE = {
    "memcpy": "MT-Safe", "memmove": "MT-Safe", "memset": "MT-Safe", "memcmp": "MT-Safe",
    "strlen": "MT-Safe", "strncmp": "MT-Safe", "strcspn": "MT-Safe", "strspn": "MT-Safe",
    "strchr": "MT-Safe", "strrchr": "MT-Safe", "strcmp": "MT-Safe", "memchr": "MT-Safe",
    "strnlen": "MT-Safe",
    "strtoul": "MT-Safe locale (library never calls setlocale)",
    "snprintf": "MT-Safe locale (library never calls setlocale)",
    "malloc": "MT-Safe", "realloc": "MT-Safe", "free": "MT-Safe", "calloc": "MT-Safe",
    "mmap": "MT-Safe (syscall)", "munmap": "MT-Safe (syscall)",
    "explicit_bzero": "MT-Safe", "arc4random_buf": "MT-Safe",
    "getentropy": "MT-Safe", "getrandom": "MT-Safe", "syscall": "MT-Safe",
    "open": "MT-Safe", "read": "MT-Safe", "close": "MT-Safe", "open64": "MT-Safe",
    "__errno_location": "returns the thread-local errno", "__assert_fail": "terminates the process",
    "abort": "terminates the process",
    # not used today, classified so that a harmless new call is not reported (glibc manual, "MT-Safe")
    "strcpy": "MT-Safe", "strncpy": "MT-Safe", "stpcpy": "MT-Safe", "stpncpy": "MT-Safe", "strcat": "MT-Safe", "strncat": "MT-Safe",
    "strstr": "MT-Safe", "strpbrk": "MT-Safe", "memccpy": "MT-Safe", "mempcpy": "MT-Safe", "memrchr": "MT-Safe", "bzero": "MT-Safe",
    "strtol": "MT-Safe locale", "strtoull": "MT-Safe locale", "strtoll": "MT-Safe locale", "strdup": "MT-Safe", "strndup": "MT-Safe",
    "posix_memalign": "MT-Safe", "aligned_alloc": "MT-Safe", "mprotect": "MT-Safe (syscall)", "madvise": "MT-Safe (syscall)",
    "getpagesize": "MT-Safe", "sysconf": "MT-Safe env", "clock_gettime": "MT-Safe", "time": "MT-Safe", "getenv": "MT-Safe env (library never calls setenv)",
    "vsnprintf": "MT-Safe locale", "sprintf": "MT-Safe locale", "write": "MT-Safe", "fcntl": "MT-Safe", "openat": "MT-Safe",
}
# functions the glibc manual marks MT-Unsafe (static result buffers / hidden global state): a call from the re-entrant closure is a violation
MT_UNSAFE = {"strtok", "strerror", "rand", "srand", "random", "srandom", "drand48", "lrand48", "mrand48", "srand48", "getpwnam", "getpwuid", "getpwent",
             "gmtime", "localtime", "asctime", "ctime", "setlocale", "setenv", "putenv", "unsetenv", "tmpnam", "readdir", "ttyname", "getlogin",
             "ecvt", "fcvt", "gcvt", "l64a", "a64l", "getspnam", "getgrnam", "getgrgid", "gethostbyname", "inet_ntoa", "crypt", "crypt_gensalt", "setkey", "encrypt", "basename", "dirname",
             "atexit", "exit", "signal", "strsignal", "catgets", "getopt", "hcreate", "hsearch", "hdestroy"}
INTRINSIC_OK = ("llvm.memcpy.", "llvm.memmove.", "llvm.memset.", "llvm.dbg.", "llvm.prefetch.",
                "llvm.x86.sse2.", "llvm.lifetime.", "llvm.bswap.", "llvm.fshl.", "llvm.fshr.",
                "llvm.umin.", "llvm.umax.", "llvm.smin.", "llvm.smax.", "llvm.assume",
                "llvm.expect.", "llvm.objectsize.", "llvm.ctlz.", "llvm.cttz.", "llvm.ctpop.",
                "llvm.abs.", "llvm.va_start", "llvm.va_end", "llvm.stacksave", "llvm.stackrestore")


def effectively_constant(m, gname, refs):
    """non-`const` global that is never stored to and whose address never
    escapes: internal linkage, all uses are loads *from* it."""
    g = m.globals[gname]
    if g["linkage"] not in ("internal", "private"):
        return False
    for fn, I, pos in refs.get(gname, []):
        if not (I.op == "load" and I.ops[0][0] == "g" and I.ops[0][1] == gname):
            return False
    return True


def mutable_reach(m, gname, refs, seen=None):
    """does read-only global `gname` (transitively) contain a pointer to mutable storage?"""
    seen = seen if seen is not None else set()
    if gname in seen:
        return None
    seen.add(gname)
    g = m.globals.get(gname)
    if g is None:
        return None
    for r in g.get("relocs") or []:
        if r[3] == "g":
            t = m.globals.get(r[1])
            if t is None:
                continue
            if not t["const"] and not effectively_constant(m, r[1], refs):
                return r[1]
            x = mutable_reach(m, r[1], refs, seen)
            if x:
                return x
    return None


def asm_writes_memory(template, constraints):
    """x86 AT&T inline asm: no memory-output constraint and no instruction
    whose destination (last operand) is a memory reference.  Returns reason or None."""
    for c in constraints.split(","):
        c = c.strip()
        if c.startswith(("=", "+")) and ("m" in c.lstrip("=+&*") or "*" in c):
            return "memory output constraint %r" % c
    for line in template.replace(";", "\n").split("\n"):
        line = line.strip()
        if not line or line.startswith((".", "#")):
            continue
        parts = line.split(None, 1)
        if len(parts) < 2:
            continue
        mnem, ops = parts
        depth = 0
        last = ""
        for ch in ops:
            if ch == "(":
                depth += 1
            elif ch == ")":
                depth -= 1
            if ch == "," and depth == 0:
                last = ""
            else:
                last += ch
        if "(" in last and not mnem.startswith(("cmp", "test", "prefetch")):
            return "instruction %r has a memory destination" % line
        if mnem.startswith(("call", "jmp", "syscall", "int", "rep", "stos", "movs", "push", "xchg", "lock")):
            return "instruction %r" % line
    return None


def reentrant_rule(chk, m, flavour, roots, rule="R-REENTRANT"):
    R = m.reach([f.name for f in roots])
    refs = m.global_refs()
    defined = [n for n in R if n in m.functions]
    external = sorted(n for n in R if n not in m.functions)
    nsites = 0
    for n in sorted(defined):
        F = m.functions[n]
        seen_g = set()
        for I in F.all_insts():
            if I.is_call and I.d.get("asm") is not None and I.d["asm"].strip():
                why = asm_writes_memory(I.d["asm"], I.d.get("asm_constraints", ""))
                if why:
                    chk.fail(rule, "%s:%s:asm" % (flavour, n), "inline assembly that may write memory (%s): %r"
                             % (why, I.d["asm"][:80]), common.loc(I))
                else:
                    chk.ok(rule + "-ASM", "%s:%s:%d" % (flavour, n, I.line))
            for o in F._all_operands(I):
                for k, gn in ir.operand_globals(o):
                    if k != "g" or gn not in m.globals:
                        continue
                    nsites += 1
                    g = m.globals[gn]
                    key = "%s:%s->%s" % (flavour, n, g.get("src") and ("%s.%s" % (g.get("scope", ""), g["src"])) or gn)
                    if g["decl"]:
                        chk.fail(rule, key, "reference to external object %s from the re-entrant closure" % gn, common.loc(I))
                        continue
                    if g.get("tls"):
                        chk.ok(rule, key)
                        continue
                    if not g["const"] and not effectively_constant(m, gn, refs):
                        if (n, gn) not in seen_g:
                            chk.fail(rule, key,
                                     "function %s (reachable from the re-entrant API) references mutable static storage %s"
                                     " (%s, %d bytes)" % (n, gn, I.op, g["size"]), common.loc(I),
                                     {"reach_example": reach_chain(m, [f.name for f in roots], n)})
                        seen_g.add((n, gn))
                        continue
                    mr = mutable_reach(m, gn, refs)
                    if mr:
                        chk.fail(rule, key, "read-only object %s points at mutable storage %s" % (gn, mr), common.loc(I))
                        continue
                    if (n, gn) not in seen_g:
                        chk.ok(rule, key, sample={"function": n, "global": gn, "const": g["const"]})
                        seen_g.add((n, gn))
    # external callees
    cg = m.callgraph()
    for n in sorted(defined):
        for c in sorted(cg[n]):
            if c in m.functions or c.startswith("<asm:"):
                continue
            key = "%s:%s->%s" % (flavour, n, c)
            if c in MT_SAFE or c.startswith(INTRINSIC_OK):
                chk.ok(rule + "-EXT", key, sample={"caller": n, "callee": c, "why": MT_SAFE.get(c, "LLVM intrinsic, no memory besides arguments")})
            elif c in MT_UNSAFE:
                chk.fail(rule + "-EXT", key, "call to %s, which the glibc manual marks MT-Unsafe" % c,
                         "%s" % common.short(m.functions[n].file))
            else:
                # neither table knows it: reporting a violation could be a false alarm, passing could hide one
                raise AnalysisBroken("%s calls the external function %s, which is neither in the MT-Safe nor in the MT-Unsafe table of vlib/props/c08.py: classify it" % (n, c))
    return R, defined, external, nsites


def reach_chain(m, roots, target):
    cg = m.callgraph()
    from collections import deque
    q = deque((m.resolve(r), [m.resolve(r)]) for r in roots)
    seen = set()
    while q:
        n, p = q.popleft()
        if n == target:
            return p
        if n in seen:
            continue
        seen.add(n)
        for c in cg.get(n, ()):
            q.append((c, p + [c]))
    return None


def run(chk, tier):
    chk.rule("R-REENTRANT", "no function in the call-graph closure of the re-entrant API references mutable static storage")
    chk.rule("R-REENTRANT-EXT", "every external callee of the closure is MT-Safe (allow-list)")
    chk.explanation = __doc__
    total_fn = 0
    for flavour in ("shared", "static"):
        m, info = common.prog(flavour)
        roots = [common.sym(m, n) for n in common.REENTRANT_API]
        # compat aliases of the re-entrant API resolve to the same definitions
        for a, t in m.aliases.items():
            if t in [r.name for r in roots]:
                pass
        R, defined, external, nsites = reentrant_rule(chk, m, flavour, roots)
        # the indirect calls must have been resolved against the table
        for fn, I, tg in m.indirect_sites:
            if fn in R and not tg:
                raise AnalysisBroken("unresolved indirect call in %s at %s" % (fn, common.loc(I)))
        tbl = m.hash_table()
        if tbl is None:
            raise AnalysisBroken("hash_algorithms table not found")
        nrows = sum(1 for r in tbl["rows"] if r["prefix"] is not None)
        for r in tbl["rows"]:
            for slot in ("crypt", "gensalt"):
                if r[slot] and m.resolve(r[slot]) not in R:
                    raise AnalysisBroken("table slot %s not in closure" % r[slot])
        total_fn += len(defined)
        chk.note(flavour, {"functions_in_closure": len(defined), "external_callees": external,
                           "global_reference_sites": nsites, "table_rows": nrows,
                           "indirect_call_sites": len([1 for fn, I, tg in m.indirect_sites if fn in R]),
                           "mutable_globals_in_module": sorted(g["name"] for g in m.d["globals"]
                                                              if common.is_mutable_global(g))})
        if len(defined) < 100:
            raise AnalysisBroken("closure has only %d functions (expected >100): call graph lost" % len(defined))
    # positive control: the non-reentrant crypt() must be flagged by the same rule
    from ..report import Check
    ctl = Check("C08", tier)
    ctl.known = {}
    m, _ = common.prog("shared")
    reentrant_rule(ctl, m, "control", [common.sym(m, "crypt")], rule="CTL")
    if not any("nr_crypt_ctx" in v["message"] for v in ctl.violations):
        raise AnalysisBroken("positive control failed: rule does not flag crypt()'s static buffer")
    chk.ok("R-CONTROL", "crypt()->nr_crypt_ctx flagged", sample="rule fires on the documented non-reentrant entry point")
    chk.assumptions += ["the MT-Safe classification of the allow-listed libc functions (glibc manual)",
                        "pinned feature configuration (arc4random_buf available); fallback RNG chain not compiled",
                        "callers use distinct data objects and buffers per thread (the property's premise)"]
    chk.trusted_base = ["clang 14 front end", "LLVM sroa/mem2reg", "src/irfacts.cc", "vlib/ir.py call graph",
                        "MT_SAFE allow-list in vlib/props/c08.py"]
