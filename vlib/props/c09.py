"""C09 - working memory and passphrase copies are erased before returning.

R-WIPE-DISPATCH  in do_crypt the wipes of `internal` (full size), `reserved` (full size) and the
    store initialized = 0 post-dominate the method call and are not executed on paths that
    fail argument validation ("otherwise untouched").
R-WIPE-CTX   every digest/HMAC finaliser wipes its whole context object (length ==
    sizeof(pointee)) on every path to return; frozen list of the finalisers.
R-WIPE-LOCAL for every local buffer the code wipes somewhere (frozen list of (function,
    variable)): from every instruction that may put data into it, no feasible path reaches a
    return without passing a wipe that covers the whole buffer.
R-WIPE-REALLOC   crypt_ra erases a live undersized block before realloc (path rule of C14).
R-WIPE-GENSALT   crypt_gensalt_rn wipes the drawn entropy with the same length it drew.
"""
import re
from .. import common, ir
from ..report import AnalysisBroken

LEVEL = "other"
TECHNIQUE = "post-dominance and must-pass-through (no wipe-free path to return) rules with correlated-branch pruning on SSA CFGs"

# finalisers that must wipe their context: function -> (param index, pointee struct)
CTX_FINALISERS = ["MD4_Final", "MD5_Final", "sha1_finish_ctx", "SHA256_Final", "SHA512_Final",
                  "HMAC_SHA256_Final", "gost_hmac256", "GOST34112012_Cleanup"]

# locals the code wipes today (confirmed by reading): function -> variables
WIPED_LOCALS = {
    "HMAC_SHA256_Buf": ["ctx", "tmp32", "tmp8"],
    "HMAC_SHA256_Final": ["tmp32", "ihash"],
    "HMAC_SHA256_Init": ["tmp32", "khash", "pad"],
    "HMAC_SHA256_Update": ["tmp32"],
    "PBKDF2_SHA256": ["Phctx", "PShctx", "U", "T", "hctx", "tmp32", "u"],
    "SHA256_Buf": ["ctx", "tmp32"],
    "SHA256_Final": ["tmp32"],
    "SHA256_Update": ["tmp32"],
    "crypt_gensalt_rn": ["internal_rbytes"],
    "hmac_sha1_process_data": ["tk", "k_ipad", "k_opad"],
    "sha1_finish_ctx": ["finalcount"],
    "yescrypt_init_shared": ["salt"],
    "yescrypt_kdf": ["dk"],
    "yescrypt_r": ["saltbin", "hashbin"],
    "yescrypt_reencrypt": ["saltbin", "hashbin"],
    "yescrypt_kdf_body": ["sha256", "dk"],
    "yescrypt_sha256_cipher": ["f"],
}

# tolerated wipe-free paths, each confirmed by reading: (function, variable) -> (literal pattern, reason)
TOLERATED = {
    ("yescrypt_r", "saltbin"): (("eq", "key", "0"),
                                "without a key saltbin only ever holds the decoded public salt"),
    ("yescrypt_kdf", "dk"): (("ne", r"yescrypt_kdf_body\(.*", "0"),
                             "early `return retval` after the first yescrypt_kdf_body failed: the callee zeroes its output buffer on failure"),
    ("yescrypt_kdf_body", "sha256"): (("eq", "flags", "0"),
                                      "classic scrypt (flags == 0): sha256 is only passed to smix, which touches it under flags & YESCRYPT_RW"),
    ("crypt_gensalt_rn", "internal_rbytes"): (("eq", r".*get_random_bytes\(.*", "0"),
                                              "get_random_bytes failed: it zeroes the buffer first and nothing was drawn"),
}


def root_alloca(F, o):
    for _ in range(20):
        if o[0] != "v" or o[1] < F.nparams:
            return None
        I = F.insts[o[1]]
        if I.op == "alloca":
            return I
        if I.op in ("bitcast", "getelementptr"):
            o = I.ops[0]
            continue
        return None
    return None


def root_param(F, o):
    for _ in range(20):
        if o[0] != "v":
            return None
        if o[1] < F.nparams:
            return o[1]
        I = F.insts[o[1]]
        if I.op == "bitcast" or (I.op == "getelementptr" and I.d.get("cpart") == 0 and not I.d.get("vpart")):
            o = I.ops[0]
            continue
        return None
    return None


def pointee_size(m, ty):
    mm = re.match(r"^%(struct\.[A-Za-z0-9_.]+|union\.[A-Za-z0-9_.]+)\*$", ty)
    if mm and mm.group(1) in m.structs:
        return m.structs[mm.group(1)]["size"]
    return None


def dispatch(chk, m, flavour):
    R = "R-WIPE-DISPATCH"
    f = common.sym(m, "do_crypt")
    ind = [I for I in f.all_insts() if I.is_call and I.callee is None and I.d.get("asm") is None]
    if len(ind) != 1:
        raise AnalysisBroken("do_crypt: %d indirect calls" % len(ind))
    IC = ind[0]
    st = m.structs["struct.crypt_data"]["fields"]
    found = {}
    for F2, G, k in common.crypt_data_field_geps(m):
        if F2 is not f or k not in (3, 4, 5):
            continue
        der, uses = common.uses_closure(f, G.id)
        for v, U in uses:
            if k in (3, 5) and U.is_call and U.callee == "explicit_bzero" and U.ops[0][0] == "v" and U.ops[0][1] in der:
                found.setdefault(k, []).append((U, ir.cval(U.ops[1])))
            if k == 4 and U.op == "store" and ir.cval(U.ops[0]) == 0:
                found.setdefault(k, []).append((U, 1))
    names = {3: "reserved", 4: "initialized", 5: "internal"}
    for k in (5, 3, 4):
        inst = "%s:%s" % (flavour, names[k])
        cands = found.get(k, [])
        if not cands:
            chk.fail(R, inst, "do_crypt no longer erases `%s` of struct crypt_data after the method call" % names[k], common.loc(IC))
            continue
        good = [(U, n) for U, n in cands if n == st[k]["size"] and f.postdominates(U, IC)]
        if not good:
            U, n = cands[0]
            if n != st[k]["size"]:
                chk.fail(R, inst, "`%s` is wiped for %s bytes, the field has %d" % (names[k], n, st[k]["size"]), common.loc(U))
            else:
                chk.fail(R, inst, "the wipe of `%s` does not post-dominate the method call: some return path skips it" % names[k], common.loc(U))
            continue
        U, n = good[0]
        if not f.dominates(IC, U):
            chk.fail(R, inst + ":untouched", "`%s` is modified on a path that never called the method (must stay untouched when validation fails)" % names[k], common.loc(U))
        else:
            chk.ok(R, inst, sample={"field": names[k], "bytes": n, "post-dominates": "h->crypt(...) at %s" % common.loc(IC)})
    # no return between the call and the wipes that skips them: also check with path search
    pf = ir.PathFinder(f)
    wipes = {U.id for k in found for U, n in found[k]}
    need = set()
    for k in (3, 4, 5):
        for U, n in found.get(k, []):
            need.add(U.id)
    # every path IC -> ret passes all three
    for k in (3, 4, 5):
        ids = {U.id for U, n in found.get(k, []) if n == st[k]["size"]}
        if not ids:
            continue
        p = pf.search(IC, lambda I: I.op == "ret", blockers=ids)
        if p is not None:
            chk.fail(R, "%s:%s:path" % (flavour, names[k]), "a path from the method call to return avoids the wipe of `%s`" % names[k],
                     common.loc(p[-1][1]), ir.path_desc(f, p))
        else:
            chk.ok(R, "%s:%s:nopath" % (flavour, names[k]))


def ctx_rule(chk, m, flavour):
    R = "R-WIPE-CTX"
    for name in CTX_FINALISERS:
        F = common.sym(m, name, required=False)
        inst = "%s:%s" % (flavour, name)
        if F is None:
            raise AnalysisBroken("finaliser %s vanished" % name)
        wipes = []
        for c in F.calls("explicit_bzero"):
            p = root_param(F, c.ops[0])
            if p is None:
                continue
            ps = pointee_size(m, F.params[p]["ty"])
            n = ir.cval(c.ops[1])
            wipes.append((c, p, ps, n))
        full = [(c, p, ps, n) for c, p, ps, n in wipes if ps is not None and n is not None and n >= ps]
        # gost_hmac256 takes its buffer as a struct pointer, Cleanup as CTX
        if not full:
            if wipes:
                c, p, ps, n = wipes[0]
                chk.fail(R, inst, "%s wipes %s bytes of its context `%s` (object has %s bytes)" % (name, n, F.vname(p), ps), common.loc(c))
            else:
                chk.fail(R, inst, "%s no longer erases its context object" % name, "%s:%d" % (common.short(F.file), F.line))
            continue
        ids = {c.id for c, p, ps, n in full}
        pf = ir.PathFinder(F)
        p = pf.search(F.entry, lambda I: I.op == "ret", blockers=ids)
        if p is not None:
            chk.fail(R, inst, "%s can return without erasing its context" % name, common.loc(p[-1][1]), ir.path_desc(F, p))
        else:
            c, pp, ps, n = full[0]
            chk.ok(R, inst, sample={"function": name, "context": F.vname(pp), "bytes": n, "sizeof": ps})


def writes_into(F, der, wipe_ids):
    """instructions that may put non-constant data into the object whose derived pointers are `der`"""
    out = []
    for v in der:
        for U in F.users(v):
            if U.id in wipe_ids:
                continue
            if U.op == "store" and U.ops[1][0] == "v" and U.ops[1][1] in der:
                if U.ops[0][0] in ("c", "n", "z", "u"):
                    continue
                out.append(U)
            elif U.is_call:
                cal = U.callee or ""
                if cal.startswith("llvm.dbg") or cal.startswith("llvm.lifetime"):
                    continue
                if cal.startswith("llvm.memset") and U.ops[1][0] == "c":
                    continue       # constant fill (zero-initialiser)
                if cal.startswith(("llvm.memcpy", "llvm.memmove")):
                    if U.ops[0][0] == "v" and U.ops[0][1] in der:
                        # copying from a constant global is an initialiser
                        src = U.ops[1]
                        s2 = src
                        while s2[0] == "e":
                            s2 = s2[2][0]
                        if s2[0] == "g" and F.m.globals.get(s2[1], {}).get("const"):
                            continue
                        out.append(U)
                    continue
                if cal in ("explicit_bzero",):
                    continue
                out.append(U)
    out.sort(key=lambda I: I.id)
    return out


def based_on_direct(F, root):
    out = {root}
    work = [root]
    while work:
        v = work.pop()
        for U in F.users(v):
            if U.op in ("getelementptr", "bitcast") and U.ops[0] == ["v", v] and U.id not in out:
                out.add(U.id)
                work.append(U.id)
    return out


def local_rule(chk, m, flavour):
    R = "R-WIPE-LOCAL"
    nvars = 0
    for fname, vars_ in sorted(WIPED_LOCALS.items()):
        F = common.sym(m, fname, required=False)
        if F is None:
            raise AnalysisBroken("function %s (owner of wiped locals) vanished" % fname)
        allocas = {}
        for I in F.all_insts():
            if I.op == "alloca":
                allocas.setdefault(F.vname(I.id), []).append(I)
        for var in vars_:
            inst = "%s:%s:%s" % (flavour, fname, var)
            if var not in allocas:
                raise AnalysisBroken("local %s of %s vanished (renamed?): update WIPED_LOCALS after reading" % (var, fname))
            A = allocas[var][0]
            nvars += 1
            der = F.based_on([A.id])
            wipes = []
            for c in F.calls("explicit_bzero"):
                if c.ops[0][0] == "v" and c.ops[0][1] in der:
                    wipes.append(c)
            if not wipes:
                chk.fail(R, inst, "%s no longer erases its local `%s` (%d bytes)" % (fname, var, A.d["asize"]),
                         "%s:%d" % (common.short(F.file), A.line or F.line))
                continue
            full, partial = [], []
            for c in wipes:
                n = ir.cval(c.ops[1])
                off0 = root_alloca(F, c.ops[0]) is A and _offset0(F, c.ops[0])
                if n is not None and n >= A.d["asize"] and off0:
                    full.append(c)
                elif n is None and off0:
                    partial.append(c)       # variable length: must be SAME as the writer's length
                else:
                    chk.fail(R, inst + ":extent", "%s wipes only %s bytes of `%s` (%d bytes)" % (fname, n, var, A.d["asize"]), common.loc(c))
            wipe_ids = {c.id for c in wipes}
            # writers: uses of pointers derived from A without passing a phi/select merge
            # (a merged pointer such as `passwd = flags ? sha256 : passwd` is only read through)
            W = writes_into(F, based_on_direct(F, A.id), wipe_ids)
            if not W:
                chk.ok(R, inst + ":nowrite")
                continue
            if partial and not full:
                # variable-length wipe: every writer must use the same length value
                okp = True
                for c in partial:
                    L = ir.expr(F, c.ops[1], 4)
                    L0 = re.sub(r"^(?:zext|sext)\((.*)\)$", r"\1", L)
                    for w in W:
                        if w.is_call and w.callee is not None and len(w.ops) >= 2 and w.ops[0][0] == "v" and w.ops[0][1] in der \
                                and str(w.d.get("fty", "")).count("i64") >= 1:
                            wl = re.sub(r"^(?:zext|sext)\((.*)\)$", r"\1", ir.expr(F, w.ops[1], 4))
                            # wipe length is a phi of {0, writer length}
                            if not _same_len(F, c.ops[1], w.ops[1]):
                                okp = False
                                chk.fail(R, inst + ":len", "%s wipes `%s` with length %s but fills it with length %s" % (fname, var, L, wl), common.loc(c))
                if not okp:
                    continue
            blockers = {c.id for c in (full or partial)}
            tol = TOLERATED.get((fname, var))
            pf = ir.PathFinder(F)
            lenkeys = []
            if partial and not full:
                for c in partial:
                    lenkeys.append(c.ops[1])

            def accept(st, trail, F=F, tol=tol, lenkeys=lenkeys, pf=pf):
                lits = [ir.atom_str(F, a, st) for a in st.facts]
                if __import__("os").environ.get("VERIF_DEBUG"):
                    print("   path lits", F.name, lits)
                if tol is not None:
                    tp, ta, tb = tol[0]
                    for p_, a_, b_ in lits:
                        a2 = re.sub(r"^(?:zext|sext|trunc)\((.*)\)$", r"\1", a_)
                        if p_ == tp and b_ == tb and (re.fullmatch(ta, a_) or re.fullmatch(ta, a2)):
                            return False
                # skipping a variable-length wipe because its length is zero is fine
                for lk in lenkeys:
                    r = pf.resolve(lk, st)
                    base = r
                    while base[0] == "v" and F.insts.get(base[1]) is not None and F.insts[base[1]].op in ("zext", "sext"):
                        base = pf.resolve(F.insts[base[1]].ops[0], st)
                    if base[0] == "c" and int(base[1]) == 0:
                        return False
                    bs = ir.expr(F, base, 6, st.phis)
                    for p_, a_, b_ in lits:
                        if p_ == "eq" and b_ == "0" and a_ in (bs, "zext(%s)" % bs, "sext(%s)" % bs):
                            return False
                return True
            bad = None
            for w in W:
                p = pf.search(w, lambda I: I.op == "ret", blockers=blockers, accept=accept)
                if p is not None:
                    bad = (w, p)
                    break
            if bad:
                w, p = bad
                chk.fail(R, inst, "`%s` of %s receives data at line %d (%s) and a path reaches return at line %d without erasing it"
                         % (var, fname, w.line, w.callee or w.op, p[-1][1].line), common.loc(w), ir.path_desc(F, p))
            else:
                chk.ok(R, inst, sample={"function": fname, "local": var, "bytes": A.d["asize"], "writers": len(W),
                                        "wipes": [c.line for c in wipes],
                                        "tolerated": tol[1] if tol else None})
    # wiped locals not in the frozen list are reported as analysis drift (exit 2), so the table stays complete
    for F in m.functions.values():
        for c in F.calls("explicit_bzero"):
            A = root_alloca(F, c.ops[0])
            if A is not None:
                fn = F.name[len("_crypt_"):] if F.name.startswith("_crypt_") else F.name
                if F.vname(A.id) not in WIPED_LOCALS.get(fn, []):
                    raise AnalysisBroken("new wiped local %s in %s is not in WIPED_LOCALS: read it and add it" % (F.vname(A.id), fn))
    return nvars


def _offset0(F, o):
    for _ in range(20):
        if o[0] != "v" or o[1] < F.nparams:
            return False
        I = F.insts[o[1]]
        if I.op == "alloca":
            return True
        if I.op == "bitcast":
            o = I.ops[0]; continue
        if I.op == "getelementptr" and I.d.get("cpart") == 0 and not I.d.get("vpart"):
            o = I.ops[0]; continue
        return False
    return False


def _same_len(F, a, b):
    """a is the wipe length, b the writer length: a must be b, or a phi/select whose non-zero
    incoming values are all b (looking through integer casts)"""
    def strip(o):
        while o[0] == "v" and o[1] >= F.nparams and F.insts[o[1]].op in ("zext", "sext", "trunc"):
            o = F.insts[o[1]].ops[0]
        return o
    a, b = strip(a), strip(b)
    if a == b:
        return True
    if a[0] == "v" and a[1] >= F.nparams and F.insts[a[1]].op == "phi":
        for o, blk in F.insts[a[1]].d["inc"]:
            o = strip(o)
            if o[0] == "c" and int(o[1]) == 0:
                continue
            if o != b and ir.expr(F, o, 5) != ir.expr(F, b, 5):
                return False
        return True
    return ir.expr(F, a, 5) == ir.expr(F, b, 5)


def run(chk, tier):
    chk.explanation = __doc__
    chk.rule("R-WIPE-DISPATCH", "do_crypt's three wipes cover whole fields, post-dominate the method call, untouched otherwise")
    chk.rule("R-WIPE-CTX", "every finaliser erases sizeof(context) on every path to return")
    chk.rule("R-WIPE-LOCAL", "no wipe-free feasible path from a write into a wiped local to a return")
    chk.rule("R-WIPE-REALLOC", "crypt_ra erases a possibly live undersized block before realloc")
    total_sites = 0
    for flavour in ("shared", "static"):
        m, info = common.prog(flavour)
        dispatch(chk, m, flavour)
        ctx_rule(chk, m, flavour)
        nv = local_rule(chk, m, flavour)
        # realloc wipe: reuse C14's path replay, keep the wipe obligations only
        from . import c14
        from ..report import Check
        sub = Check("C09", tier)
        sub.known = {}
        c14.crypt_ra(sub, m, flavour)
        for v in sub.violations:
            if ":wipe-" in v["key"]:
                chk.fail("R-WIPE-REALLOC", v["instance"].replace("R-RA-TYPESTATE", ""), v["message"], v["loc"], v["detail"])
        chk.count("R-WIPE-REALLOC", sub.rules.get("R-RA-TYPESTATE", {"ok": 0})["ok"], ["%s:ra%d" % (flavour, i) for i in range(3)])
        sites = sum(1 for F in m.functions.values() for c in F.calls("explicit_bzero"))
        total_sites += sites
        chk.note(flavour, {"explicit_bzero_call_sites": sites, "wiped_locals": nv, "finalisers": len(CTX_FINALISERS)})
        if sites < 40:
            raise AnalysisBroken("only %d explicit_bzero call sites seen (52 on the pinned tree)" % sites)
    chk.floor("R-WIPE-LOCAL", 60)
    chk.floor("R-WIPE-CTX", 16)
    chk.assumptions += [
        "NOT decided: stack and register residue of variables the code never wipes (SHA512_Transform W/S, sha1_do_transform block, BF_set_key tmp), compiler-introduced spill copies, and the contents of freed/unmapped memory",
        "explicit_bzero is not elided by the compiler (its contract)",
        "tolerated wipe-free paths are listed with reasons in vlib/props/c09.py TOLERATED",
    ]
