"""C10 - every setting crypt_gensalt* produces is usable: XAI grid: alphabet-clean, tagged with the selected method's prefix, < 192 chars, NUL-terminated, function of (prefix,count,rbytes) only; the three entry points are one function (R-GENSALT-FUNNEL from C07)."""
from .. import gensalt_grid as G, gensalt_oracle as O, common
from ..report import AnalysisBroken

LEVEL = "other"
TECHNIQUE = "trace-partitioned abstract interpretation of LLVM IR (interval x known-bits x byte-sets x root linkage, path forking) with property oracles over the path summaries"


def run(chk, tier):
    chk.explanation = __doc__
    g = G.run(tier)
    O.engine_health(chk, g)
    O.c10(chk, g)
    # composition: every abstract setting the gensalt grid produces is fed into crypt_rn
    from .. import compose_grid as C
    cg = C.run(tier)
    per = C.oracle(chk, cg)
    chk.note("composition", {"cells": cg["ncells"], "per_method": per, "engine_wall_s": round(cg["wall"], 1),
                             "not_composed": {"$gy$": "crypt path not covered by the interpreter"},
                             "digit_fields_concretised": sorted(C.CONCRETISE_DIGITS)})
    npaths = sum(c["npaths"] for c in g["res"].values())
    chk.note("grid", {"cells": g["ncells"], "abstract_paths": npaths, "engine_wall_s": round(g["wall"], 1), "from_cache": g["cached"],
                      "prefix_classes": sorted({(m["prefix"] or b"<NULL>").decode("latin1") + ("+tail" if m["tail"] else "") for m in g["meta"].values()}),
                      "nrbytes_classes": len({m["nrbytes"] for m in g["meta"].values()}),
                      "count": "root interval [0, 2^64-1] split by the code's own comparisons, plus %d concrete points" % len(G.COUNT_POINTS),
                      "output_size": "root interval [-2^31, 2^31-1] split by the code's own comparisons"})
    chk.extra["exhaustive"] = True
    chk.trusted_base = ["clang 14 front end", "LLVM sroa/mem2reg", "LLVM ConstantRange/KnownBits", "src/xai*.{cc,h} interpreter, memory model and libc models",
                        "vlib/gensalt_oracle.py"]
    chk.assumptions += ["rbytes (when not NULL) points to at least nrbytes readable bytes and nrbytes >= 0; output points to output_size writable bytes",
                        "libc models: snprintf, strlen, strncmp, memcpy/memmove/memset, explicit_bzero, arc4random_buf, __errno_location, __assert_fail (src/xai.cc)"]
