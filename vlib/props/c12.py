"""C12 - generated salts carry the supplied randomness: provenance-tracked salt characters per path; never empty, >= documented minimum, >= standard size with 16+ bytes; auto-entropy only from the OS CSPRNG."""
from .. import gensalt_grid as G, gensalt_oracle as O, common
from ..report import AnalysisBroken

LEVEL = "other"
TECHNIQUE = "trace-partitioned abstract interpretation of LLVM IR (interval x known-bits x byte-sets x root linkage, path forking) with property oracles over the path summaries"


def run(chk, tier):
    chk.explanation = __doc__
    g = G.run(tier)
    O.engine_health(chk, g)
    O.c12(chk, g)
    # the bytes drawn from the OS are the ones used only if they sit in storage private to the call: no function of the
    # crypt_gensalt_rn closure may reference a mutable static object (C07's census of mutable statics, restricted)
    from . import c07
    from ..report import Check
    chk.rule("R-ENTROPY-PRIVATE", "no function reachable from crypt_gensalt_rn references mutable static storage (the drawn random bytes live in automatic storage)")
    for flavour in ("shared", "static"):
        m, info = common.prog(flavour)
        closure = m.reach([common.sym(m, "crypt_gensalt_rn").name])
        sub = Check("C12", tier)
        sub.known = {}
        c07.globals_rule(sub, m, flavour)
        n = 0
        for v in sub.violations:
            names = {c07.cname(fn) for fn in closure} | set(closure)
            if any(("'%s'" % nm) in v["message"] for nm in names):
                chk.fail("R-ENTROPY-PRIVATE", v["instance"], v["message"], v["loc"], v["detail"])
                n += 1
        if not n:
            chk.ok("R-ENTROPY-PRIVATE", flavour, sample={"closure_functions": len(closure)})
    npaths = sum(c["npaths"] for c in g["res"].values())
    chk.note("grid", {"cells": g["ncells"], "abstract_paths": npaths, "engine_wall_s": round(g["wall"], 1), "from_cache": g["cached"],
                      "prefix_classes": sorted({(m["prefix"] or b"<NULL>").decode("latin1") + ("+tail" if m["tail"] else "") for m in g["meta"].values()}),
                      "nrbytes_classes": len({m["nrbytes"] for m in g["meta"].values()}),
                      "count": "root interval [0, 2^64-1] split by the code's own comparisons, plus %d concrete points" % len(G.COUNT_POINTS),
                      "output_size": "root interval [-2^31, 2^31-1] split by the code's own comparisons"})
    chk.extra["exhaustive"] = True
    chk.trusted_base = ["clang 14 front end", "LLVM sroa/mem2reg", "LLVM ConstantRange/KnownBits", "src/xai*.{cc,h} interpreter, memory model and libc models",
                        "vlib/gensalt_oracle.py"]
    chk.assumptions += ["rbytes (when not NULL) points to at least nrbytes readable bytes and nrbytes >= 0; output points to output_size writable bytes",
                        "libc models: snprintf, strlen, strncmp, memcpy/memmove/memset, explicit_bzero, arc4random_buf, __errno_location, __assert_fail (src/xai.cc)"]
