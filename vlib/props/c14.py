"""C14 - crypt_ra and crypt_gensalt_ra keep the caller's allocation protocol sound.

R-RA-TYPESTATE  every acyclic path of crypt_ra (memory cells *data / *size interpreted, branches
    pruned for consistency) is replayed against the malloc/realloc protocol; the obligations are
    an inductive invariant Inv = "*data is NULL or a live malloc block of >= max(*size,0) bytes",
    so they hold after every finite call history.
R-GENSALT-RA    every path of crypt_gensalt_ra: malloc result tested first; the block is either
    freed exactly once and not returned, or returned and not freed; size passed == size allocated;
    crypt_gensalt_rn returns its buffer or NULL.
"""
from .. import common, ir
from ..report import AnalysisBroken

LEVEL = "proof"
TECHNIQUE = "path-complete typestate replay (allocation protocol automaton) over the SSA CFG with interpreted memory cells"


def E(f, o, st):
    return ir.expr(f, o, 6, st.phis)


def lit_strs(f, lits, st):
    return [ir.atom_str(f, a, st) for a, T, t in lits]


def int_bounds(lits, sym, bits=32):
    """signed interval [lo, hi] of the entry value `sym` implied by the path literals
    (comparisons of sym, sext(sym) or zext(sym) with constants)."""
    lo, hi = -(1 << (bits - 1)), (1 << (bits - 1)) - 1
    changed = True
    wide = ("sext(%s)" % sym, "zext(%s)" % sym)
    for _ in range(3):
        for p, a, b in lits:
            try:
                c = int(b)
            except ValueError:
                continue
            if a == sym:
                if p == "sgt": lo = max(lo, c + 1)
                elif p == "sge": lo = max(lo, c)
                elif p == "slt": hi = min(hi, c - 1)
                elif p == "sle": hi = min(hi, c)
                elif p == "eq": lo, hi = max(lo, c), min(hi, c)
            elif a in wide:
                # unsigned comparison of the widened value: meaningful once sign is known
                if a.startswith("sext") and lo < 0:
                    # negative values become huge: `ult c` (c small) implies 0 <= sym < c
                    if p == "ult" and 0 <= c <= hi + 1: lo, hi = max(lo, 0), min(hi, c - 1)
                    elif p == "ule" and 0 <= c <= hi: lo, hi = max(lo, 0), min(hi, c)
                    continue
                if p == "ult": hi = min(hi, c - 1)
                elif p == "ule": hi = min(hi, c)
                elif p == "ugt": lo = max(lo, c + 1)
                elif p == "uge": lo = max(lo, c)
                elif p in ("sgt",): lo = max(lo, c + 1)
                elif p in ("sge",): lo = max(lo, c)
                elif p in ("slt",): hi = min(hi, c - 1)
                elif p in ("sle",): hi = min(hi, c)
    return lo, hi


def nonnull(lits, sym):
    if ("ne", sym, "0") in lits:
        return True
    if ("eq", sym, "0") in lits:
        return False
    return None


def crypt_ra(chk, m, flavour):
    R = "R-RA-TYPESTATE"
    f = common.sym(m, "crypt_ra")
    SZ = m.structs["struct.crypt_data"]["size"]
    OUT = m.structs["struct.crypt_data"]["fields"][0]["size"]
    pd, ps = f.params[2]["id"], f.params[3]["id"]
    D0 = "*%s@entry" % f.vname(pd)
    S0 = "*%s@entry" % f.vname(ps)
    # the cells must not escape: data/size pointers are only loaded from / stored to
    for p in (pd, ps):
        for U in f.users(p):
            if not (U.op == "load" or (U.op == "store" and U.ops[1] == ["v", p])):
                raise AnalysisBroken("crypt_ra: parameter %s escapes into %s; cell model not applicable" % (f.vname(p), U.op))
    paths = ir.enumerate_paths(f, cells=[pd, ps])
    n = 0
    for lits, rv, st, trail in paths:
        ls = lit_strs(f, lits, st)
        ev = st.phis.get("events", [])
        evs = [(k, I, [E(f, a, st) for a in args]) for k, I, args in ev]
        n += 1
        pid = "%s:path%d" % (flavour, n)
        where = common.loc(f.blocks[trail[-1]][-1])
        desc = {"literals": ls, "events": [(I.callee or "store", a) for k, I, a in evs], "returns": E(f, rv, st) if rv else None}

        def bad(what, msg, I=None):
            chk.fail(R, "%s:%s:%s" % (flavour, what, ",".join("%s%s%s" % (a, p, b) for p, a, b in ls)[:90]), "crypt_ra: " + msg,
                     common.loc(I) if I is not None else where, desc)

        calls = [(i, I, a) for i, (k, I, a) in enumerate(evs) if k == "call"]
        stores = [(i, I, a) for i, (k, I, a) in enumerate(evs) if k == "store"]
        re_ = [(i, I, a) for i, I, a in calls if I.callee == "realloc"]
        dc = [(i, I, a) for i, I, a in calls if I.callee == "do_crypt"]
        allowed = {"realloc", "do_crypt", "explicit_bzero", "_crypt_make_failure_token", "make_failure_token", "__errno_location"}
        for i, I, a in calls:
            if I.callee not in allowed and not (I.callee or "").startswith("llvm.mem"):
                bad("call", "unexpected call to %s on an allocation path" % I.callee, I)
        if len(re_) > 1:
            bad("realloc2", "realloc called twice on one path", re_[1][1])
            continue
        cur = D0
        if re_:
            i, I, a = re_[0]
            rname = "realloc(%s)" % ",".join(a)
            if a[0] != D0:
                bad("realloc-arg", "realloc is applied to %s, not to the caller's *data" % a[0], I)
            if a[1] != str(SZ):
                bad("realloc-size", "realloc size %s != sizeof(struct crypt_data) = %d" % (a[1], SZ), I)
            # erase-before-grow
            lo, hi = int_bounds(ls, S0)
            nn = nonnull(ls, D0)
            maybe_live = (nn is not False) and hi >= 1          # an undersized live block is possible on this path
            live = (nn is True) and lo >= 0                       # wiping (*data, *size) is known to be in bounds
            wipes = [(j, J, b) for j, J, b in calls if J.callee == "explicit_bzero" and j < i]
            if maybe_live:
                if not any(b[0] == D0 and b[1] in ("sext(%s)" % S0, "zext(%s)" % S0) for j, J, b in wipes):
                    bad("wipe-before-realloc", "a possibly live undersized block (%s %s, %s in [%d,%d]) is not erased before realloc" % (D0, "!= NULL" if nn else "unknown", S0, lo, hi), I)
            for j, J, b in wipes:
                if not live:
                    bad("wipe-guard", "explicit_bzero(%s) reached without knowing *data != NULL and *size >= 0 (size in [%d,%d])" % (",".join(b), lo, hi), J)
                elif b[0] != D0 or b[1] not in ("sext(%s)" % S0, "zext(%s)" % S0):
                    bad("wipe-extent", "explicit_bzero(%s): not (*data, *size) - may write outside the caller's block" % ",".join(b), J)
            failed = ("eq", rname, "0") in ls
            succeeded = ("ne", rname, "0") in ls
            if not failed and not succeeded:
                bad("realloc-unchecked", "the result of realloc is not tested on this path", I)
                continue
            if failed:
                late = [x for x in stores if x[0] > i]
                if late:
                    bad("store-on-failure", "*%s is overwritten although realloc failed (caller loses its block)" % f.vname(late[0][1].ops[1][1]), late[0][1])
                if dc:
                    bad("use-after-failed-realloc", "do_crypt is reached after realloc failed", dc[0][1])
                if rv is None or E(f, rv, st) != "NULL":
                    bad("ret-on-failure", "returns %s although realloc failed" % (E(f, rv, st) if rv else None))
                if any(j > i for j, J, b in calls if J.callee not in ("__errno_location",)):
                    bad("work-after-failure", "calls after failed realloc")
                chk.ok(R, pid, sample=desc)
                continue
            # success edge
            sd = [x for x in stores if x[0] > i and x[2][1] == f.vname(pd)]
            ss = [x for x in stores if x[0] > i and x[2][1] == f.vname(ps)]
            early = [x for x in stores if x[0] < i]
            if early:
                bad("store-before-test", "*data/*size stored before realloc's result is known", early[0][1])
            if not sd or sd[-1][2][0] != rname:
                bad("data-not-updated", "*data is not set to the block realloc returned")
            if not ss or ss[-1][2][0] != str(SZ):
                bad("size-not-updated", "*size is not set to %d after growing (recorded size %s)" % (SZ, ss[-1][2][0] if ss else "unchanged"))
            ms = [(j, J, b) for j, J, b in calls if (J.callee or "").startswith("llvm.memset") and j > i]
            if not any(b[0] == rname and b[1] == "0" and b[2] == str(SZ) for j, J, b in ms):
                bad("no-zero-init", "the freshly grown block is not zero-initialised over its %d bytes" % SZ)
            cur = rname
            # old pointer dead
            for j, J, b in calls:
                if j > i and D0 in b and D0 != "NULL":
                    if not (("eq", D0, "0") in ls):
                        bad("use-after-realloc", "%s receives the old block %s after realloc" % (J.callee, D0), J)
        else:
            if stores:
                bad("spurious-store", "*data/*size stored on a path that does not reallocate", stores[0][1])
            lo, hi = int_bounds(ls, S0)
            if not (nonnull(ls, D0) is True and lo >= SZ):
                bad("small-block", "do_crypt may run on a block smaller than struct crypt_data (%d): *data %s, recorded size in [%d,%d]"
                    % (SZ, "!= NULL" if nonnull(ls, D0) else "may be NULL", lo, hi))
        # hashing on the current block
        if len(dc) != 1:
            bad("do_crypt", "%d calls to do_crypt on a succeeding path" % len(dc))
            continue
        j, J, b = dc[0]
        if b[2] != cur:
            bad("do_crypt-obj", "do_crypt works on %s, the live block is %s" % (b[2], cur), J)
        ft = [(k, K, c) for k, K, c in calls if K.callee in ("_crypt_make_failure_token", "make_failure_token") and k < j]
        if not any(c[1] == cur and c[2] == str(OUT) for k, K, c in ft):
            bad("token", "failure token not written into the live block's output field before hashing", J)
        r = E(f, rv, st) if rv else None
        if r not in ("NULL", cur):
            bad("ret", "returns %s: neither NULL nor a pointer into the live block %s" % (r, cur))
        chk.ok(R, pid, sample=desc)
    return len(paths)


def gensalt_ra(chk, m, flavour):
    R = "R-GENSALT-RA"
    f = common.sym(m, "crypt_gensalt_ra")
    rn = common.sym(m, "crypt_gensalt_rn")
    # summary: crypt_gensalt_rn returns its buffer argument or NULL
    outp = rn.params[4]["id"]
    from .c07 import ret_values
    for r in rn.rets():
        for v in ret_values(rn, r.ops[0]):
            if not (v[0] == "n" or v == ["v", outp]):
                chk.fail(R, "%s:rn-returns" % flavour, "crypt_gensalt_rn may return %s (neither its buffer nor NULL)" % ir.expr(rn, v), common.loc(r))
    paths = ir.enumerate_paths(f)
    n = 0
    for lits, rv, st, trail in paths:
        n += 1
        ls = lit_strs(f, lits, st)
        # events: recompute by walking trail
        calls = []
        for b in trail:
            for I in f.blocks[b]:
                if I.is_call and not (I.callee or "").startswith("llvm.dbg"):
                    calls.append((I, [E(f, a, st) for a in I.ops]))
        desc = {"literals": ls, "calls": [(I.callee, a) for I, a in calls]}
        where = common.loc(f.blocks[trail[-1]][-1])

        def bad(what, msg, I=None):
            chk.fail(R, "%s:%s:%s" % (flavour, what, ",".join("%s%s%s" % (a, p, b) for p, a, b in ls)[:80]), "crypt_gensalt_ra: " + msg,
                     common.loc(I) if I is not None else where, desc)
        mal = [(I, a) for I, a in calls if I.callee == "malloc"]
        if len(mal) != 1 or calls[0][0].callee != "malloc":
            bad("malloc", "expected exactly one malloc, first on the path")
            continue
        M = "malloc(%s)" % mal[0][1][0]
        frees = [(I, a) for I, a in calls if I.callee == "free"]
        gs = [(I, a) for I, a in calls if m.resolve(I.callee or "") == rn.name]
        r = E(f, rv, st) if rv else None
        if ("eq", M, "0") in ls:
            if frees or gs or r != "NULL":
                bad("malloc-failed", "after a failed malloc the function must only return NULL")
            chk.ok(R, "%s:path%d" % (flavour, n), sample=desc)
            continue
        if ("ne", M, "0") not in ls:
            bad("malloc-unchecked", "malloc's result is used without a NULL test")
            continue
        if len(gs) != 1:
            bad("worker", "expected exactly one call to crypt_gensalt_rn")
            continue
        I, a = gs[0]
        if a[4] != M or a[5] != mal[0][1][0]:
            bad("size-mismatch", "crypt_gensalt_rn(…, %s, %s) but the block is %s" % (a[4], a[5], M), I)
        G = "%s(%s)" % (I.callee, ",".join(a))
        if ("eq", G, "0") in ls:
            if len(frees) != 1 or frees[0][1][0] != M:
                bad("leak", "worker failed but the block is freed %d times" % len(frees))
            if r not in ("NULL", G):
                bad("ret-after-free", "returns %s after freeing the block" % r)
        elif ("ne", G, "0") in ls:
            if frees:
                bad("free-on-success", "the returned block is also freed (caller would double-free)", frees[0][0])
            if r not in (G, M):
                bad("ret", "returns %s instead of the generated setting" % r)
        else:
            if frees:
                bad("free-unguarded", "free() is not guarded by the worker's NULL result", frees[0][0])
            else:
                # crypt_gensalt_rn returns its buffer or NULL (checked above); a path that neither tests that result nor
                # frees the block loses the block whenever the worker fails
                bad("leak-untested", "the worker's result is passed on untested: when crypt_gensalt_rn fails the block from %s is neither freed nor returned" % M, I)
        chk.ok(R, "%s:path%d" % (flavour, n), sample=desc)
    return len(paths)


def run(chk, tier):
    chk.explanation = __doc__
    chk.rule("R-RA-TYPESTATE", "each acyclic path of crypt_ra replayed against the realloc protocol; invariant preserved")
    chk.rule("R-GENSALT-RA", "each path of crypt_gensalt_ra: freed-xor-returned, sizes agree")
    for flavour in ("shared", "static"):
        m, info = common.prog(flavour)
        n1 = crypt_ra(chk, m, flavour)
        n2 = gensalt_ra(chk, m, flavour)
        chk.note(flavour, {"crypt_ra_paths": n1, "crypt_gensalt_ra_paths": n2})
    chk.floor("R-RA-TYPESTATE", 10, "paths of crypt_ra")
    chk.floor("R-GENSALT-RA", 4, "paths of crypt_gensalt_ra")
    chk.assumptions += ["libc protocol: realloc(p,n) returns NULL leaving p untouched, or a live block of n bytes and p dead; malloc/free as usual",
                        "premise Inv on entry: *data is NULL or a live malloc block at least max(*size,0) bytes long (property's precondition)",
                        "do_crypt writes only inside the 32768-byte object it is given (C04) and crypt_gensalt_rn only inside its buffer (C13)"]
    chk.trusted_base = ["clang 14 front end", "LLVM sroa/mem2reg", "src/irfacts.cc", "vlib/ir.py path enumerator (cells, correlated-branch pruning)"]
