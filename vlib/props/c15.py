"""C15 - allocation and mapping failures are reported cleanly and leak nothing.

R-ALLOC-CHECKED  every malloc/realloc/calloc/mmap/munmap result is compared with its failure value
                 and never dereferenced before that comparison; results of the in-library wrappers
                 (alloc_region, free_region, yescrypt_free_local/shared, yescrypt_init_local) are
                 consumed (tested or returned) at every call site reachable from the API; the failure
                 edge of every alloc_region call leads only to returns of a non-zero constant.
R-BRACKET        after yescrypt_init_local every return of crypt_yescrypt_rn / crypt_gost_yescrypt_rn
                 passes yescrypt_free_local; inside yescrypt_kdf_body no return lies between a
                 successful alloc_region(&tmp) and free_region(&tmp).
R-FAIL-IS-FAILURE  (imported) C05's no-error-after-write and errno rules and C09's dispatch wipes
                 hold, so an allocator failure ends in a failing API return with errno set, the token
                 intact and the scratch erased.
"""
from .. import common, ir, summ
from ..report import AnalysisBroken, Check

LEVEL = "other"
TECHNIQUE = "checked-before-use and must-pass-through rules on SSA (allocator call sites, wrapper results, init/free bracketing) with correlated-branch path search"

ALLOC = {"malloc": "null", "realloc": "null", "calloc": "null", "mmap": "minus1", "munmap": "int"}
WRAPPERS = {"alloc_region", "free_region", "_crypt_yescrypt_free_local", "yescrypt_free_local", "_crypt_yescrypt_free_shared",
            "yescrypt_free_shared", "_crypt_yescrypt_init_local", "yescrypt_init_local"}


def is_fail_const(o, kind):
    if kind == "null":
        return o[0] == "n"
    if kind == "minus1":
        return o[0] == "e" and o[1] == "inttoptr" and ir.cval(o[2][0], signed=True) == -1
    return False


def flows(F, vid):
    """values that carry vid unchanged (phi / bitcast)"""
    out = {vid}
    work = [vid]
    while work:
        v = work.pop()
        for U in F.users(v):
            if U.op in ("phi", "bitcast") and U.id not in out:
                out.add(U.id)
                work.append(U.id)
    return out


def alloc_checked(chk, m, S, flavour, api_reach):
    R = "R-ALLOC-CHECKED"
    nsites = 0
    for F in m.functions.values():
        for c in F.calls():
            kind = ALLOC.get(c.callee)
            if kind is None:
                continue
            nsites += 1
            inst = "%s:%s:%s@%d" % (flavour, F.name, c.callee, c.line)
            fl = flows(F, c.id)
            checks = []
            derefs = []
            for v in fl:
                for U in F.users(v):
                    if U.id in fl:
                        continue
                    if U.op == "icmp":
                        other = U.ops[1] if (U.ops[0][0] == "v" and U.ops[0][1] in fl) else U.ops[0]
                        if kind == "int" or is_fail_const(other, kind) or (kind == "minus1" and other[0] == "n"):
                            checks.append(U)
                    elif U.op in ("load", "getelementptr") or (U.op == "store" and U.ops[1][0] == "v" and U.ops[1][1] in fl):
                        derefs.append(U)
                    elif U.is_call and kind != "int":
                        derefs.append(U)
            if kind == "int":
                # munmap: the value must feed a comparison or be returned
                used = any(True for v in fl for U in F.users(v) if U.op in ("icmp", "ret", "br", "trunc", "zext"))
                if not used:
                    chk.fail(R, inst, "%s ignores the result of %s" % (F.name, c.callee), common.loc(c))
                else:
                    chk.ok(R, inst, sample={"site": inst, "checked": True})
                continue
            if not checks:
                # returned unchecked to the caller is fine only for pure forwarding wrappers
                if any(U.op == "ret" for v in fl for U in F.users(v)) and not derefs:
                    chk.ok(R, inst)
                else:
                    chk.fail(R, inst, "result of %s is never compared with its failure value in %s" % (c.callee, F.name), common.loc(c))
                continue
            bad = [d for d in derefs if not any(F.dominates(k, d) for k in checks)]
            if bad:
                chk.fail(R, inst, "result of %s is used (%s at line %d) before it is tested for failure" % (c.callee, bad[0].callee or bad[0].op, bad[0].line), common.loc(bad[0]))
            else:
                chk.ok(R, inst, sample={"site": inst, "checks": [k.line for k in checks], "uses_after_check": len(derefs)})
    # a failed mmap must not escape as a pointer: under the assumption `mmap(...) == MAP_FAILED`
    # neither the returned value nor a value stored to memory may be that result
    crm0 = S.const_ret_map()
    for F in m.functions.values():
        for c in F.calls("mmap"):
            inst = "%s:%s:mmap@%d:escape" % (flavour, F.name, c.line)
            pf = ir.PathFinder(F, const_ret=crm0)
            st = pf.dominating_facts(c.block)
            mf = ["e", "inttoptr", [["c", (1 << 64) - 1, 64]]]
            st.facts.append(("eq", ir._okey(["v", c.id]), ir._okey(mf)))
            found = []

            def accept(stx, trail, F=F, pf=pf, c=c, found=found):
                r = trail[-1][1]
                rv = pf.resolve(r.ops[0], stx) if r.ops else None
                if rv is not None and F.strip_casts(rv) == ["v", c.id]:
                    found.append(("returned", r))
                    return True
                seen_blocks = [b for b, I in trail] + [r.block]
                started = False
                for b in seen_blocks:
                    for I in F.blocks[b]:
                        if I.id == c.id:
                            started = True
                        if started and I.op == "store":
                            v = pf.resolve(I.ops[0], stx)
                            if F.strip_casts(v) == ["v", c.id]:
                                # later mmap retry overwrites? only flag if no later store to the same address on this path
                                found.append(("stored", I))
                                return True
                return False
            p = pf.search(c, lambda I: I.op == "ret", start_state=st, accept=accept)
            if p is not None:
                kind, I = found[0]
                chk.fail(R, inst, "when mmap fails, MAP_FAILED is %s at line %d instead of being turned into a NULL failure" % (kind, I.line), common.loc(I), ir.path_desc(F, p))
            else:
                chk.ok(R, inst)
    # wrapper results consumed
    for F in m.functions.values():
        if F.name not in api_reach:
            continue
        for c in F.calls():
            if c.callee not in WRAPPERS:
                continue
            inst = "%s:%s:%s@%d" % (flavour, F.name, c.callee, c.line)
            users = F.users(c.id)
            if not any(U.op in ("icmp", "ret", "br", "store", "phi", "trunc", "zext") for U in users):
                chk.fail(R, inst, "%s ignores the result of %s (a failed mapping/unmapping would go unnoticed)" % (F.name, c.callee), common.loc(c))
            else:
                chk.ok(R, inst)
    # failure edge of alloc_region leads to non-zero constant returns only
    crm = S.const_ret_map()
    for F in m.functions.values():
        if F.name not in api_reach:
            continue
        for c in F.calls("alloc_region"):
            inst = "%s:%s:alloc_region@%d:fail-edge" % (flavour, F.name, c.line)
            paths = ir.enumerate_paths(F, max_paths=200000, const_ret=crm) if False else None
            # search from the call along the path where the result is NULL
            pf = ir.PathFinder(F, const_ret=crm)
            st = pf.dominating_facts(c.block)
            st.facts.append(("eq", ("v", c.id), ("c", 0, 64)))
            bad = []

            def accept(stx, trail, F=F, pf=pf, bad=bad):
                r = trail[-1][1]
                rv = pf.resolve(r.ops[0], stx) if r.ops else None
                if rv is None or rv[0] != "c" or ir.cval(rv, signed=True) == 0:
                    bad.append((r, rv))
                    return True
                return False
            p = pf.search(c, lambda I: I.op == "ret", start_state=st, accept=accept)
            if p is not None:
                chk.fail(R, inst, "after a failed alloc_region %s can return %s at line %d (must be a non-zero failure code)" %
                         (F.name, "0" if bad and bad[0][1] and bad[0][1][0] == "c" else "a non-constant value", p[-1][1].line), common.loc(c), ir.path_desc(F, p))
            else:
                chk.ok(R, inst)
    return nsites


def bracket(chk, m, S, flavour):
    R = "R-BRACKET"
    crm = S.const_ret_map()
    for name in ("crypt_yescrypt_rn", "crypt_gost_yescrypt_rn"):
        F = common.sym(m, name)
        inits = [c for c in F.calls() if (c.callee or "").endswith("yescrypt_init_local")]
        frees = {c.id for c in F.calls() if (c.callee or "").endswith("yescrypt_free_local")}
        inst = "%s:%s" % (flavour, name)
        if len(inits) != 1:
            raise AnalysisBroken("%s: %d yescrypt_init_local calls" % (name, len(inits)))
        if not frees:
            chk.fail(R, inst, "%s never calls yescrypt_free_local: the mapped region leaks" % name, common.loc(inits[0]))
            continue
        pf = ir.PathFinder(F, const_ret=crm)
        p = pf.search(inits[0], lambda I: I.op == "ret", blockers=frees)
        if p is not None:
            chk.fail(R, inst, "%s can return at line %d after yescrypt_init_local without yescrypt_free_local (mapping leaked)" % (name, p[-1][1].line),
                     common.loc(p[-1][1]), ir.path_desc(F, p))
        else:
            chk.ok(R, inst, sample={"function": name, "init": inits[0].line, "free_sites": len(frees)})
    F = common.sym(m, "yescrypt_kdf_body")
    tmp = [I for I in F.all_insts() if I.op == "alloca" and F.vname(I.id) == "tmp"]
    if len(tmp) != 1:
        raise AnalysisBroken("yescrypt_kdf_body: local region `tmp` not found")
    der = F.based_on([tmp[0].id])
    allocs = [c for c in F.calls("alloc_region") if c.ops[0][0] == "v" and c.ops[0][1] in der]
    frees = {c.id for c in F.calls("free_region") if c.ops[0][0] == "v" and c.ops[0][1] in der}
    inst = "%s:yescrypt_kdf_body:tmp" % flavour
    if not allocs or not frees:
        chk.fail(R, inst, "yescrypt_kdf_body: alloc_region(&tmp)/free_region(&tmp) pair incomplete", common.short(F.file))
    else:
        pf = ir.PathFinder(F, const_ret=crm)
        for a in allocs:
            st = pf.dominating_facts(a.block)
            st.facts.append(("ne", ("v", a.id), ("c", 0, 64)))
            p = pf.search(a, lambda I: I.op == "ret", blockers=frees, start_state=st)
            if p is not None:
                chk.fail(R, inst, "yescrypt_kdf_body can return at line %d between a successful alloc_region(&tmp) and free_region(&tmp)" % p[-1][1].line,
                         common.loc(p[-1][1]), ir.path_desc(F, p))
            else:
                chk.ok(R, inst + "@%d" % a.line)
    # free_region un-maps what alloc_region mapped: same (base, base_size) fields
    fr = common.sym(m, "free_region")
    mu = list(fr.calls("munmap"))
    if len(mu) == 1:
        a0, a1 = ir.expr(fr, mu[0].ops[0], 4), ir.expr(fr, mu[0].ops[1], 4)
        P = fr.params[0]["name"]
        if a0 == "load(%s)" % P and a1 == "load(%s+16)" % P:
            chk.ok(R, "%s:free_region:args" % flavour, sample="munmap(region->base, region->base_size)")
        else:
            chk.fail(R, "%s:free_region:args" % flavour, "free_region unmaps (%s, %s), expected (region->base, region->base_size)" % (a0, a1), common.loc(mu[0]))


def map_size(chk, m, flavour):
    """R-MAP-SIZE: on every path of alloc_region the length recorded for the mapping (region->base_size, what free_region
    hands to munmap) is the very length the surviving mmap call was given; otherwise the tail of the mapping is leaked or
    foreign memory is unmapped"""
    F = common.sym(m, "alloc_region", required=False)
    if F is None:
        return 0
    pf = ir.PathFinder(F)
    reg = F.params[0]["id"]
    # stores into *region: (field byte offset, instruction)
    field_stores = []
    for I in F.all_insts():
        if I.op != "store" or I.ops[1][0] != "v":
            continue
        G = F.insts.get(I.ops[1][1])
        if G is not None and G.op == "getelementptr" and F.strip_casts(G.ops[0]) == ["v", reg] and not G.d.get("vpart"):
            field_stores.append((G.d.get("cpart", 0), I))
        elif F.strip_casts(I.ops[1]) == ["v", reg]:
            field_stores.append((0, I))
    offs = sorted({o for o, _ in field_stores})
    if len(offs) < 3:
        raise AnalysisBroken("alloc_region: stores into the region descriptor not recognised (%s)" % offs)
    base_off, size_off = offs[0], offs[2]          # { base, aligned, base_size, aligned_size }
    n = 0
    for lits, rv, st, trail in ir.enumerate_paths(F):
        def val(o):
            o = pf.resolve(o, st)
            I = F.insts.get(o[1]) if o[0] == "v" else None
            if I is not None and I.op == "select":
                t, _ = pf.cond_truth(I.ops[0], st)
                if t is True:
                    return val(I.ops[1])
                if t is False:
                    return val(I.ops[2])
            return o
        bstore = [I for o, I in field_stores if o == base_off and I.block in trail]
        sstore = [I for o, I in field_stores if o == size_off and I.block in trail]
        if not bstore or not sstore:
            continue
        base = val(bstore[-1].ops[0])
        size = val(sstore[-1].ops[0])
        BI = F.insts.get(base[1]) if base[0] == "v" else None
        if BI is None or not BI.is_call or BI.callee != "mmap":
            continue                              # NULL (failure) or the malloc fallback: nothing is mapped
        want = val(BI.ops[1])
        inst = "%s:alloc_region:mmap@%d" % (flavour, BI.line)
        if size[0] == "c" and int(size[1]) == 0:
            continue                              # the `base ? base_size : 0` arm for a NULL base: nothing to unmap
        if size == want:
            chk.ok("R-MAP-SIZE", inst + "|" + ",".join(str(b) for b in trail[-4:]), sample={"mmap_line": BI.line, "length": ir.expr(F, want) if hasattr(ir, "expr") else str(want)})
        else:
            chk.fail("R-MAP-SIZE", inst, "alloc_region maps %s bytes (mmap at line %d) but records %s as the size of the mapping: free_region will unmap a different length" % (
                ir.expr(F, want), BI.line, ir.expr(F, size)), "lib/alg-yescrypt-platform.c:%d" % BI.line)
        n += 1
    return n


def run(chk, tier):
    chk.explanation = __doc__
    chk.rule("R-ALLOC-CHECKED", "allocator and wrapper results are tested before use / consumed; failure edges return failure codes")
    chk.rule("R-MAP-SIZE", "the length recorded for a mapping is the length it was mapped with (what munmap later receives)")
    chk.rule("R-BRACKET", "init/free and alloc/free bracketing on every path")
    chk.rule("R-FAIL-IS-FAILURE", "C05 fail-closed rules and C09 dispatch wipes hold (imported)")
    for flavour in ("shared", "static"):
        m, info = common.prog(flavour)
        S = summ.Summaries(m)
        api = m.reach([common.sym(m, n).name for n in common.ALL_API])
        n = alloc_checked(chk, m, S, flavour, api)
        bracket(chk, m, S, flavour)
        nmap = map_size(chk, m, flavour)
        if common.sym(m, "alloc_region", required=False) is not None and nmap < 2:
            raise AnalysisBroken("R-MAP-SIZE examined only %d paths of alloc_region" % nmap)
        chk.note(flavour, {"allocator_call_sites": n})
        if n < 4:
            raise AnalysisBroken("only %d allocator call sites found (5 on the pinned tree)" % n)
        # imported rules
        from . import c05, c09
        sub = Check("C15", tier)
        sub.known = {}
        c05.token_first(sub, m, flavour)
        roles = c05.no_err_after_write(sub, m, S, flavour)
        c05.err_set(sub, m, S, flavour, roles)
        c09.dispatch(sub, m, flavour)
        for v in sub.violations:
            chk.fail("R-FAIL-IS-FAILURE", v["rule"] + ":" + v["instance"], v["message"], v["loc"], v["detail"])
        chk.count("R-FAIL-IS-FAILURE", sum(r["ok"] for r in sub.rules.values()), ["%s:imported" % flavour])
    # a failed (re)allocation in crypt_ra / crypt_gensalt_ra must leave the caller's (*data, *size) pair and the heap as they
    # were, otherwise the next call on the same objects does not behave normally: C14's path rules, imported
    from . import c14
    sub = Check("C15", tier)
    sub.known = {}
    c14.run(sub, tier)
    chk.rule("R-RA-FAILURE", "crypt_ra / crypt_gensalt_ra leave the caller's block, its recorded size and the heap consistent on every failing path (imported from C14)")
    for v in sub.violations:
        chk.fail("R-RA-FAILURE", v["instance"], v["message"], v["loc"], v["detail"])
    chk.count("R-RA-FAILURE", sum(r["ok"] for r in sub.rules.values()), ["crypt_ra"])
    chk.assumptions += ["libc reports allocator failure through the documented failure value and sets errno",
                        "both outcomes of every allocator call are additionally explored by the XAI crypt scenarios (C04) when claimed",
                        "pairs of faults add nothing statically: a second fault is another already-explored edge"]
