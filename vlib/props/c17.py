"""C17 - DES core and the obsolete setkey/encrypt API implement standard DES.

R-DES-TABLES   all ten precomputed DES tables as compiled (10 x 4-16 KiB of initialisers read from the
               IR) equal tables derived independently from the FIPS 46-3 definitions of IP, IP^-1,
               PC-1, PC-2, S1..S8 and P (oracles/fips46.py); the base tables inside
               lib/gen-des-tables.c equal the same FIPS copy.
R-DES-SIBLINGS setkey/setkey_r and encrypt/encrypt_r are the same worker applied to the static and the
               caller's context with unchanged arguments; the worker uses salt 0 and count 1;
               pack_bits looks at the low bit only, unpack_bits stores 0/1 only.
R-DES-STATE    the static key schedule is referenced by setkey/encrypt only and is unreachable from
               the crypt* / crypt_gensalt* API.
R-DES-KEYSCHED the key-schedule rotation table in alg-des.c equals FIPS' left-shift schedule.
"""
import os, re, struct, sys
from .. import common, front, ir
from ..report import AnalysisBroken

LEVEL = "other"
TECHNIQUE = "table oracle (compiled initialisers vs independent derivation from FIPS 46-3) + SSA argument-identity rules for the sibling entry points + who-may-reference"


def compiled_table(m, name, elem):
    g = m.globals.get("_crypt_" + name) or m.globals.get(name)
    if g is None or g.get("init") is None:
        raise AnalysisBroken("DES table %s not found in the compiled program" % name)
    if not g["const"]:
        return None, g
    b = bytes.fromhex(g["init"])
    if elem == 1:
        return list(b), g
    return list(struct.unpack("<%dI" % (len(b) // 4), b)), g


def parse_c_table(text, name):
    mm = re.search(r"\b%s\s*(?:\[[^\]]*\])+\s*=\s*\{(.*?)\};" % re.escape(name), text, re.S)
    if not mm:
        return None
    return [int(x, 0) for x in re.findall(r"\b(?:0x[0-9a-fA-F]+|\d+)\b", mm.group(1))]


def run(chk, tier):
    chk.explanation = __doc__
    sys.path.insert(0, os.path.join(front.VERIF, "oracles"))
    import fips46
    try:
        want = fips46.derive()
    except AssertionError as e:
        raise AnalysisBroken("FIPS oracle self-check failed: %r" % (e,))
    chk.rule("R-DES-TABLES", "compiled DES tables == derivation from FIPS 46-3; gen-des-tables.c base tables == FIPS")
    chk.rule("R-DES-SIBLINGS", "re-entrant and static obsolete DES entry points share one worker with unchanged arguments; salt 0, count 1")
    # the DES core itself: bodies of des_set_key / des_set_salt / des_crypt_block interpreted with all loops unrolled, for both
    # directions and several iteration counts; every table index and every walk over the key schedule stays in bounds, and
    # the key schedule / salt bits stay below 2^24 (what the block function's table indexing relies on)
    from .. import unit_contracts as U
    U.oracle(chk, U.run(tier))
    chk.rule("R-DES-STATE", "static key schedule confined to setkey/encrypt")
    m, info = common.prog("shared")
    total = 0
    for name, elem in (("m_sbox", 1), ("psbox", 4), ("ip_maskl", 4), ("ip_maskr", 4), ("fp_maskl", 4), ("fp_maskr", 4),
                       ("key_perm_maskl", 4), ("key_perm_maskr", 4), ("comp_maskl", 4), ("comp_maskr", 4)):
        got, g = compiled_table(m, name, elem)
        if got is None:
            chk.fail("R-DES-TABLES", name + ":const", "DES table %s is not read-only" % name, "lib/alg-des-tables.c")
            continue
        exp = [x for row in want[name] for x in row]
        if len(got) != len(exp):
            chk.fail("R-DES-TABLES", name + ":size", "table %s has %d entries, FIPS derivation has %d" % (name, len(got), len(exp)), "lib/alg-des-tables.c")
            continue
        ncols = len(want[name][0])
        bad = [i for i in range(len(exp)) if got[i] != exp[i]]
        total += len(exp)
        if bad:
            i = bad[0]
            chk.fail("R-DES-TABLES", "%s[%d][%d]" % (name, i // ncols, i % ncols),
                     "%s[%d][%d] = %#x, the value derived from FIPS 46-3 is %#x (%d entries differ)" % (name, i // ncols, i % ncols, got[i], exp[i], len(bad)),
                     "lib/alg-des-tables.c", {"first_bad_indices": bad[:10]})
        else:
            chk.count("R-DES-TABLES", len(exp), [name])
            chk.samples.append({"rule": "R-DES-TABLES", "instance": name, "detail": "%d entries equal" % len(exp)})
    # base tables in the generator
    gsrc = open(os.path.join(front.REPO, "lib", "gen-des-tables.c")).read()
    for cname, ref in (("IP", fips46.IP), ("key_perm", fips46.PC1), ("comp_perm", fips46.PC2), ("pbox", fips46.P),
                       ("sbox", [x for box in fips46.S for row in box for x in row])):
        got = parse_c_table(gsrc, cname)
        if got is None:
            raise AnalysisBroken("base table %s not found in lib/gen-des-tables.c" % cname)
        if got != ref:
            bad = [i for i in range(min(len(got), len(ref))) if got[i] != ref[i]]
            chk.fail("R-DES-TABLES", "gen:" + cname, "gen-des-tables.c: %s differs from FIPS 46-3 at index %s" % (cname, bad[:5] or "length"), "lib/gen-des-tables.c")
        else:
            chk.count("R-DES-TABLES", len(ref), ["gen:" + cname])
    # key schedule shifts
    asrc = open(os.path.join(front.REPO, "lib", "alg-des.c")).read()
    ks = parse_c_table(asrc, "key_shifts")
    if ks is None:
        raise AnalysisBroken("key_shifts not found in lib/alg-des.c")
    g = None
    for gg in m.d["globals"]:
        if gg.get("src") == "key_shifts":
            g = gg
    if g is not None and g.get("init"):
        ks = list(bytes.fromhex(g["init"]))
    if ks != fips46.KEY_SHIFTS:
        chk.fail("R-DES-KEYSCHED", "key_shifts", "key schedule rotations %s differ from FIPS 46-3 %s" % (ks, fips46.KEY_SHIFTS), "lib/alg-des.c")
    else:
        chk.ok("R-DES-KEYSCHED", "key_shifts", sample=ks)
    chk.rules["R-DES-KEYSCHED"]["desc"] = "key-schedule rotation table == FIPS"
    # ---- siblings
    R = "R-DES-SIBLINGS"
    sk, skr, en, enr = (common.sym(m, n) for n in ("setkey", "setkey_r", "encrypt", "encrypt_r"))
    dsk, den = common.sym(m, "do_setkey_r"), common.sym(m, "do_encrypt_r")

    def only_call(F, callee):
        cs = [c for c in F.calls() if not (c.callee or "").startswith("llvm.")]
        ws = [c for c in cs if c.callee == callee]
        others = [c for c in cs if c.callee not in (callee, "get_des_ctx")]
        return ws, others
    for F, worker, nargs, ctx_static in ((sk, "do_setkey_r", 1, True), (skr, "do_setkey_r", 1, False), (en, "do_encrypt_r", 2, True), (enr, "do_encrypt_r", 2, False)):
        ws, others = only_call(F, worker)
        inst = F.name
        if len(ws) != 1 or others:
            chk.fail(R, inst, "%s is not a single forwarding call to %s (calls: %s)" % (F.name, worker, [c.callee for c in ws + others]), common.short(F.file))
            continue
        c = ws[0]
        ok = all(c.ops[i] == ["v", i] for i in range(nargs))
        ctx = ir.expr(F, c.ops[nargs], 4)
        if ctx_static:
            ok = ok and ctx.startswith("@") and "nr_encrypt_ctx" in ctx
        else:
            ok = ok and ctx == "get_des_ctx(%s)" % F.params[nargs]["name"]
        if ok:
            chk.ok(R, inst, sample="%s -> %s(%s)" % (F.name, worker, ", ".join(ir.expr(F, o, 4) for o in c.ops)))
        else:
            chk.fail(R, inst, "%s calls %s(%s): arguments are not the caller's own / wrong context" % (F.name, worker, ", ".join(ir.expr(F, o, 4) for o in c.ops)), common.loc(c))
    # worker: salt 0, count 1, direction = edflag != 0
    c = list(dsk.calls("_crypt_des_set_salt")) + list(dsk.calls("des_set_salt"))
    if len(c) == 1 and ir.cval(c[0].ops[1]) == 0 and c[0].ops[0] == ["v", 1]:
        chk.ok(R, "do_setkey_r:salt0")
    else:
        chk.fail(R, "do_setkey_r:salt0", "do_setkey_r does not select salt 0 on the caller's context", common.short(dsk.file))
    c = list(dsk.calls("_crypt_des_set_key")) + list(dsk.calls("des_set_key"))
    pk = list(dsk.calls("pack_bits"))
    if len(c) == 1 and len(pk) == 1 and c[0].ops[0] == ["v", 1] and pk[0].ops[1] == ["v", 0] and ir.expr(dsk, c[0].ops[1], 3) == ir.expr(dsk, pk[0].ops[0], 3):
        chk.ok(R, "do_setkey_r:key")
    else:
        chk.fail(R, "do_setkey_r:key", "do_setkey_r does not feed pack_bits(key) into des_set_key on the caller's context", common.short(dsk.file))
    c = list(den.calls("_crypt_des_crypt_block")) + list(den.calls("des_crypt_block"))
    if len(c) == 1:
        a = [ir.expr(den, o, 4) for o in c[0].ops]
        P0, P1, P2 = (den.params[i]["name"] for i in range(3))
        ok = a[0] == P2 and a[3] == "1" and re.fullmatch(r"(?:zext\()?\(%s ne 0\)\)?" % re.escape(P1), a[4]) is not None
        pk = list(den.calls("pack_bits")); up = list(den.calls("unpack_bits"))
        ok = ok and len(pk) == 1 and len(up) == 1 and pk[0].ops[1] == ["v", 0] and up[0].ops[0] == ["v", 0] and \
            ir.expr(den, pk[0].ops[0], 3) == a[2] and ir.expr(den, up[0].ops[1], 3) == a[1]
        if ok:
            chk.ok(R, "do_encrypt_r:block", sample="des_crypt_block(%s)" % ", ".join(a))
        else:
            chk.fail(R, "do_encrypt_r:block", "do_encrypt_r calls des_crypt_block(%s): expected (ctx, out, pack_bits(block), count 1, edflag != 0) and unpack_bits(block, out)" % ", ".join(a), common.loc(c[0]))
    else:
        chk.fail(R, "do_encrypt_r:block", "do_encrypt_r has %d des_crypt_block calls" % len(c), common.short(den.file))
    # pack_bits reads `& 1`, unpack_bits stores 0/1
    pb, ub = common.sym(m, "pack_bits"), common.sym(m, "unpack_bits")
    src_param = pb.params[1]["id"]
    der = pb.based_on([src_param])
    loads = [I for I in pb.all_insts() if I.op == "load" and I.ops[0][0] == "v" and I.ops[0][1] in der]
    okp = bool(loads)
    for L in loads:
        # every use chain of the loaded byte passes an `and ..., 1` before anything else than casts
        work = [L.id]
        seen = set()
        while work:
            v = work.pop()
            for U in pb.users(v):
                if U.op in ("zext", "sext", "trunc") and U.id not in seen:
                    seen.add(U.id); work.append(U.id)
                elif U.op == "and" and (ir.cval(U.ops[1]) == 1 or ir.cval(U.ops[0]) == 1):
                    continue
                else:
                    okp = False
    if okp:
        chk.ok(R, "pack_bits:lowbit", sample="%d loads of the 64-byte block, each masked with 1" % len(loads))
    else:
        chk.fail(R, "pack_bits:lowbit", "pack_bits looks at more than the low bit of a block byte", common.short(pb.file))
    dst = ub.params[0]["id"]
    der = ub.based_on([dst])
    sts = [I for I in ub.all_insts() if I.op == "store" and I.ops[1][0] == "v" and I.ops[1][1] in der]
    oku = bool(sts)
    for s_ in sts:
        e = ir.expr(ub, s_.ops[0], 4)
        if not re.match(r"^(?:trunc\()?zext\(\(.* (?:ne|eq) 0\)\)\)?$", e):
            oku = False
    if oku:
        chk.ok(R, "unpack_bits:01", sample="stores zext(cmp) only")
    else:
        chk.fail(R, "unpack_bits:01", "unpack_bits may store bytes other than 0/1 (%s)" % [ir.expr(ub, s_.ops[0], 4) for s_ in sts][:2], common.short(ub.file))
    # ---- state
    refs = m.global_refs()
    users = {fn for fn, I, pos in refs.get("nr_encrypt_ctx", [])}
    if not users:
        raise AnalysisBroken("static DES context nr_encrypt_ctx not found")
    if users - {sk.name, en.name}:
        chk.fail("R-DES-STATE", "nr_encrypt_ctx", "static DES key schedule referenced by %s" % sorted(users - {sk.name, en.name}), "lib/crypt-des-obsolete.c")
    else:
        chk.ok("R-DES-STATE", "nr_encrypt_ctx", sample=sorted(users))
    api = m.reach([common.sym(m, n).name for n in common.ALL_API])
    if {sk.name, en.name} & api:
        chk.fail("R-DES-STATE", "reach", "setkey/encrypt reachable from crypt*/crypt_gensalt*", "lib/")
    else:
        chk.ok("R-DES-STATE", "reach")
    # crypt's static object is a different object
    chk.note("tables", {"entries_compared": total})
    if total < 20000:
        raise AnalysisBroken("only %d DES table entries were compared (33792 bytes of tables expected)" % total)
    chk.assumptions += ["NOT decided: that des_set_key / des_crypt_block combine these tables as DES does (round function, E expansion via shifts, decryption order): behavioural",
                        "FIPS tables in oracles/fips46.py are typed in from the standard and self-checked (permutation properties, IP^-1 = inverse of IP)"]
