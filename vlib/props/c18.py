"""C18 - crypt_checksalt / crypt_preferred_method agree with crypt and crypt_gensalt.

R-CHECKSALT-PATHS  every acyclic path of crypt_checksalt is enumerated; its branch
    atoms are named (NULL, empty, bad chars, lookup failed, is_strong) and the constant it
    returns is compared with the specification evaluated on every completion of those atoms.
R-CHECKSALT-READS  `setting` is used only for the NULL test, the first-byte test and as the
    argument of the two helpers that do_crypt uses (same callees).
R-STRONG-SET   is_strong column == STRONG flags of hashes.conf == documented strong set.
R-TABLE-SHAPE  plen == strlen(prefix), first-match lookup cannot shadow, empty prefixes last.
R-PREFERRED    crypt_preferred_method's constant == the NULL-prefix default of crypt_gensalt_rn
    == first enabled DEFAULT entry of hashes.conf, and selects a strong row.
X-NULL-PREFIX  gensalt grid: NULL prefix == preferred prefix, path by path.
X-TAG-LOOKUP   get_hashfn interpreted abstractly: out-of-alphabet first / second characters find no
    row, two in-alphabet characters find the traditional-DES row.
"""
import itertools, os, re
from .. import common, front, ir
from ..report import AnalysisBroken

LEVEL = "proof"
TECHNIQUE = "path-complete enumeration of crypt_checksalt on SSA with named branch atoms + table/oracle comparison"

DOCUMENTED_STRONG = {"yescrypt", "gost_yescrypt", "scrypt", "bcrypt", "bcrypt_y", "bcrypt_a", "sha512crypt"}


def read_hashes_conf():
    rows = []
    for line in open(os.path.join(front.REPO, "lib", "hashes.conf")):
        line = line.strip()
        if not line or line.startswith("#"):
            continue
        f = line.split()
        if len(f) != 4:
            raise AnalysisBroken("hashes.conf line not understood: %r" % line)
        rows.append({"name": f[0], "prefix": "" if f[1] == ":" else f[1], "nrbytes": int(f[2]),
                     "flags": set() if f[3] == ":" else set(f[3].split(","))})
    return rows


def status_codes(incdir):
    txt = open(os.path.join(incdir, "crypt.h")).read()
    out = {}
    for k in ("CRYPT_SALT_OK", "CRYPT_SALT_INVALID", "CRYPT_SALT_METHOD_DISABLED", "CRYPT_SALT_METHOD_LEGACY", "CRYPT_SALT_TOO_CHEAP"):
        mm = re.search(r"#define\s+%s\s+(\d+)" % k, txt)
        if not mm:
            raise AnalysisBroken("%s not defined in regenerated crypt.h" % k)
        out[k] = int(mm.group(1))
    return out


def classify(fn, m, s):
    """atom string triple -> (name, truth-of-name) or None"""
    P = fn.params[0]["name"] or "arg0"
    pred, a, b = s
    if b not in ("0", "NULL") or pred not in ("eq", "ne"):
        return None
    is_zero = (pred == "eq")
    strong_off = m.structs["struct.hashfn"]["fields"][5]["off"]
    a2 = re.sub(r"^(?:zext|sext)\((.*)\)$", r"\1", a)
    if a == P:
        return ("NULL", is_zero)
    if a2 == "load(%s)" % P:
        return ("EMPTY", is_zero)
    if a2 == "check_badsalt_chars(%s)" % P:
        return ("BAD", not is_zero)
    if a2 == "get_hashfn(%s)" % P:
        return ("HNULL", is_zero)
    if a2 == "load(get_hashfn(%s)+%d)" % (P, strong_off):
        return ("STRONG", not is_zero)
    return None


def spec(v, codes):
    if v["NULL"] or v["EMPTY"] or v["BAD"] or v["HNULL"]:
        return codes["CRYPT_SALT_INVALID"]
    return codes["CRYPT_SALT_OK"] if v["STRONG"] else codes["CRYPT_SALT_METHOD_LEGACY"]


def checksalt_paths(chk, m, codes, tag=""):
    f = common.sym(m, "crypt_checksalt")
    paths = ir.enumerate_paths(f)
    names = ["NULL", "EMPTY", "BAD", "HNULL", "STRONG"]
    covered = set()
    for lits, rv, st, trail in paths:
        known = {}
        unknown = []
        for atom, T, truth in lits:
            s = ir.atom_str(f, atom, st)
            c = classify(f, m, s)
            if c is None:
                unknown.append((s, T))
            else:
                if c[0] in known and known[c[0]] != c[1]:
                    known = None
                    break
                known[c[0]] = c[1]
        if known is None:
            continue   # contradictory path (infeasible)
        inst = tag + ",".join("%s=%d" % (k, known[k]) for k in names if k in known) + \
            ("" if not unknown else "+unknown")
        if rv is None or rv[0] != "c":
            chk.fail("R-CHECKSALT-PATHS", inst, "path does not return a constant status", common.loc(f.blocks[trail[-1]][-1]))
            continue
        got = ir.cval(rv, signed=True)
        # spec over all feasible completions: later atoms are only meaningful if earlier are false
        bad = None
        for bits in itertools.product([False, True], repeat=len(names)):
            v = dict(zip(names, bits))
            if any(v[k] != known[k] for k in known):
                continue
            covered.add(bits)
            if spec(v, codes) != got:
                bad = v
                break
        if bad is not None:
            chk.fail("R-CHECKSALT-PATHS", inst,
                     "crypt_checksalt returns %d on the path {%s} but the specification gives %d for %s%s"
                     % (got, inst, spec(bad, codes), {k: int(x) for k, x in bad.items()},
                        "; path also branches on %s" % [u[0] for u in unknown] if unknown else ""),
                     common.loc(f.blocks[trail[-1]][-1]),
                     {"path_blocks": [f.bnames[b] for b in trail]})
        else:
            chk.ok("R-CHECKSALT-PATHS", inst, sample={"path": inst, "returns": got})
    return f, len(paths)


def run(chk, tier):
    chk.explanation = __doc__
    m, info = common.prog("shared")
    check_module(chk, m, info)
    null_prefix_equiv(chk, m, tier)
    tag_lookup(chk, m, info)
    chk.assumptions += ["check_badsalt_chars and get_hashfn are the same functions do_crypt uses (checked), their own semantics are covered by C05/C06 rules",
                        "pinned hash selection; other selections are evaluated under C19"]


def tag_lookup(chk, m, info):
    """get_hashfn, interpreted abstractly for every filter-clean setting that begins with no method's tag: nothing may be
    found (crypt_checksalt then says INVALID).  The two-character traditional-DES tag is the one place where the lookup is
    code rather than the table: a first or second character outside ./0-9A-Za-z must not select the DES rows."""
    from .. import xai, crypt_grid as K
    R = "X-TAG-LOOKUP"
    chk.rule(R, "get_hashfn finds nothing for a filter-clean setting whose first two characters are not a tag of hashes.conf (one of them outside ./0-9A-Za-z, the first neither '$' nor '_'), and finds a row when both are in the alphabet")
    F = common.sym(m, "get_hashfn", required=False)
    if F is None:
        raise AnalysisBroken("get_hashfn not found")
    conf = read_hashes_conf()
    firsts = {c["prefix"].encode()[0] for c in conf if c["prefix"]}
    des = any(c["prefix"] == "" for c in conf if c["name"] in enabled_names(m))
    other = K.CLEAN - K.A64
    cells, expect = [], {}

    def cell(cid, h0, h1, want):
        reg = {"name": "setting", "kind": "cstr", "bytes": "", "tail": True, "prov": "setting", "tailset": K.set_hex(K.CLEAN | {0}),
               "headsets": [K.set_hex(h0), K.set_hex(h1)]}
        cells.append(xai.simple_cell(cid, F.name, [reg], [{"ptr": "setting"}]))
        expect[cid] = want
    cell("bad-first", other - firsts, K.CLEAN, "null")
    cell("bad-second", K.A64 - firsts, other, "null")
    if des:
        cell("des-tag", K.A64 - firsts, K.A64, "row")
    res = xai.run_cells(info["bc"], cells, {"maxPaths": 4000}, jobs=3)
    for cid, want in sorted(expect.items()):
        c = res[cid]
        if c["budget"] or any(a["kind"] in ("MODEL", "BUDGET") for p in c["paths"] for a in p["alarms"]):
            raise AnalysisBroken("X-TAG-LOOKUP cell %s could not be interpreted completely" % cid)
        rets = sorted({p["ret"] for p in c["paths"]})
        if not rets:
            raise AnalysisBroken("X-TAG-LOOKUP cell %s produced no path" % cid)
        bad = [r for r in rets if (r != "null") == (want == "null")]
        if bad:
            if want == "null":
                chk.fail(R, cid, "get_hashfn can return a table row (%s) for a setting whose %s character is outside ./0-9A-Za-z and that starts with no method's tag: crypt_checksalt would not answer INVALID for it" % (
                    bad[0], "first" if cid == "bad-first" else "second"), "lib/crypt.c", {"cell": cid, "rets": rets})
            else:
                chk.fail(R, cid, "get_hashfn can return NULL for a setting that starts with two characters of ./0-9A-Za-z although traditional DES is enabled", "lib/crypt.c", {"cell": cid, "rets": rets})
        else:
            chk.ok(R, cid, sample={"rets": rets, "paths": len(c["paths"])})


def enabled_names(m):
    """names of the methods compiled in, from the hash table's function symbols"""
    out = set()
    for c in read_hashes_conf():
        if common.sym(m, "crypt_%s_rn" % c["name"], required=False) is not None:
            out.add(c["name"])
    return out


def null_prefix_equiv(chk, m, tier):
    """crypt_gensalt_rn(NULL, count, rbytes, nrbytes, ...) against crypt_gensalt_rn(<preferred prefix>, same arguments): the
    abstract interpretations (gensalt grid) must consist of the same paths - same argument boxes, same return, same errno,
    same output pattern"""
    from .. import gensalt_grid as G, xai
    chk.rule("X-NULL-PREFIX", "crypt_gensalt with a NULL prefix behaves exactly as with the preferred method's prefix: identical abstract paths (argument boxes, result, errno, output) for every count and nrbytes class")
    g = G.run(tier)
    dflt = next((c["prefix"] for c in read_hashes_conf() if "DEFAULT" in c["flags"] and any(r["prefix"] == c["prefix"] for r in g["rows"])), None)
    if dflt is None:
        chk.distinct.add(("X-NULL-PREFIX", "no default method enabled"))
        return

    def sig(c):
        out = []
        for p in c["paths"]:
            o = tuple(tuple(sorted(s_)) for s_, pr in p.get("out", []))
            e = p["errno"] if p["errno"] is None or p["errno"] == "any" else tuple(p["errno"])
            out.append((tuple(tuple(r) for r in p["roots"][:3]), p["ret"], e, o, tuple(sorted(a["kind"] for a in p["alarms"]))))
        return sorted(out, key=repr)
    n = 0
    for cid, c in sorted(g["res"].items()):
        mt = g["meta"][cid]
        if mt["kind"] not in ("null", "null-auto"):
            continue
        twin = "P%s|%s" % (dflt, cid.split("|", 1)[1])
        if twin not in g["res"]:
            continue
        a, b = sig(c), sig(g["res"][twin])
        if a != b:
            da = [x for x in a if x not in b][:1]
            db = [x for x in b if x not in a][:1]
            def show(x):
                return "count %s nrbytes %s size %s -> %s errno %s %r" % (list(x[0][0]), list(x[0][1]), list(x[0][2]), x[1], x[2], bytes(min(t) for t in x[3][:40]) if x[3] else b"")
            chk.fail("X-NULL-PREFIX", cid, "crypt_gensalt_rn(NULL, ...) and crypt_gensalt_rn(%r, ...) differ for nrbytes class %s: NULL gives {%s}, the prefix gives {%s}" % (
                dflt, cid.split("|", 1)[1], show(da[0]) if da else "-", show(db[0]) if db else "-"), "lib/crypt.c", {"cells": [cid, twin]})
        else:
            chk.ok("X-NULL-PREFIX", cid, sample={"twin": twin, "paths": len(a)})
            n += 1
    if n + len([v for v in chk.violations if v["rule"] == "X-NULL-PREFIX"]) < 3:
        raise AnalysisBroken("only %d NULL-prefix cells could be paired with cells of the preferred prefix %r" % (n, dflt))


def check_module(chk, m, info, tag=""):
    codes = status_codes(info["incdir"])
    chk.rule("R-CHECKSALT-PATHS", "returned constant on every acyclic path of crypt_checksalt equals the specification")
    f, npaths = checksalt_paths(chk, m, codes, tag)
    if npaths < 3:
        raise AnalysisBroken("crypt_checksalt has only %d paths" % npaths)
    # R-CHECKSALT-READS
    chk.rule("R-CHECKSALT-READS", "crypt_checksalt touches `setting` only via NULL test, first byte, check_badsalt_chars, get_hashfn")
    pid = 0
    dc = common.sym(m, "do_crypt")
    dc_callees = {I.callee for I in dc.calls()}
    for U in f.users(pid):
        ok = False
        if U.op == "icmp":
            ok = True
        elif U.op == "load" and U.d["size"] == 1:
            ok = True
        elif U.is_call and U.callee in ("check_badsalt_chars", "get_hashfn") and U.callee in dc_callees:
            ok = True
        elif U.op == "getelementptr" and U.d.get("cpart") == 0 and not U.d.get("vpart"):
            ok = all(x.op == "load" and x.d["size"] == 1 for x in f.users(U.id))
        if ok:
            chk.ok("R-CHECKSALT-READS", "%s@%d" % (U.op, U.line))
        else:
            chk.fail("R-CHECKSALT-READS", "%s:%s" % (U.op, U.callee or ""),
                     "crypt_checksalt uses its argument in %s%s: verdict may depend on more than tag and character set"
                     % (U.op, " " + U.callee if U.callee else ""), common.loc(U))
    for c in f.calls():
        if c.callee not in ("check_badsalt_chars", "get_hashfn") and not (c.callee or "").startswith("llvm."):
            chk.fail("R-CHECKSALT-READS", "call:%s" % c.callee, "crypt_checksalt calls %s" % c.callee, common.loc(c))
    # both helpers are the ones do_crypt uses and they take only the string
    for h in ("check_badsalt_chars", "get_hashfn"):
        if h not in dc_callees:
            chk.fail("R-CHECKSALT-READS", "do_crypt:" + h, "do_crypt no longer uses %s: crypt and checksalt filters may differ" % h,
                     common.short(dc.file))
        else:
            chk.ok("R-CHECKSALT-READS", "do_crypt:" + h)
    # ---- tables
    tbl = m.hash_table()
    rows = [r for r in tbl["rows"] if r["prefix"] is not None]
    conf = read_hashes_conf()
    enabled = set(info["enabled"])
    byfn = {}
    for c in conf:
        byfn["_crypt_crypt_%s_rn" % c["name"]] = c
    chk.rule("R-STRONG-SET", "is_strong column == hashes.conf STRONG flag == documented strong set")
    for r in rows:
        c = byfn.get(r["crypt"])
        if c is None:
            chk.fail("R-STRONG-SET", r["crypt"], "table row %r has no hashes.conf entry" % r["prefix"], "lib/hashes.conf")
            continue
        want_doc = c["name"] in DOCUMENTED_STRONG
        want_conf = "STRONG" in c["flags"]
        if bool(r["is_strong"]) != want_doc or want_conf != want_doc:
            chk.fail("R-STRONG-SET", c["name"],
                     "method %s: compiled is_strong=%d, hashes.conf STRONG=%s, documented strong=%s"
                     % (c["name"], r["is_strong"], want_conf, want_doc), "lib/hashes.conf")
        else:
            chk.ok("R-STRONG-SET", c["name"], sample={"method": c["name"], "is_strong": r["is_strong"]})
        if r["prefix"] != c["prefix"]:
            chk.fail("R-TABLE-SHAPE", c["name"] + ":prefix", "compiled prefix %r != hashes.conf %r" % (r["prefix"], c["prefix"]), "lib/hashes.conf")
        if r["nrbytes"] != c["nrbytes"]:
            chk.fail("R-TABLE-SHAPE", c["name"] + ":nrbytes", "compiled nrbytes %d != hashes.conf %d" % (r["nrbytes"], c["nrbytes"]), "lib/hashes.conf")
        if r["gensalt"] != "_crypt_gensalt_%s_rn" % c["name"]:
            chk.fail("R-TABLE-SHAPE", c["name"] + ":gensalt", "row pairs crypt_%s with %s" % (c["name"], r["gensalt"]), "lib/hashes.conf")
    have = {byfn[r["crypt"]]["name"] for r in rows if r["crypt"] in byfn}
    if have != enabled:
        chk.fail("R-TABLE-SHAPE", "rows", "compiled table has methods %s, configuration enables %s" % (sorted(have), sorted(enabled)), "lib/hashes.conf")
    chk.rule("R-TABLE-SHAPE", "plen == strlen(prefix); no row shadows a later row; empty prefixes last; NULL sentinel")
    for i, r in enumerate(rows):
        if r["plen"] != len(r["prefix"]):
            chk.fail("R-TABLE-SHAPE", "plen:%s" % r["prefix"], "plen %d != strlen(%r)" % (r["plen"], r["prefix"]), "build-aux/scripts/gen-crypt-hashes-h")
        else:
            chk.ok("R-TABLE-SHAPE", "plen:%s:%d" % (r["prefix"], i))
        for j in range(i + 1, len(rows)):
            q = rows[j]
            if r["prefix"] and q["prefix"].startswith(r["prefix"]):
                chk.fail("R-TABLE-SHAPE", "shadow:%s>%s" % (r["prefix"], q["prefix"]),
                         "row %r precedes and shadows %r in first-match lookup" % (r["prefix"], q["prefix"]), "lib/hashes.conf")
            elif not r["prefix"] and q["prefix"]:
                chk.fail("R-TABLE-SHAPE", "empty-first:%s" % q["prefix"], "empty-prefix row precedes %r" % q["prefix"], "lib/hashes.conf")
            else:
                chk.ok("R-TABLE-SHAPE", "order:%d<%d" % (i, j))
    if tbl["rows"][-1]["prefix"] is not None:
        chk.fail("R-TABLE-SHAPE", "sentinel", "hash_algorithms has no NULL sentinel row", "lib/crypt.c")
    # get_hashfn compares with (h->prefix, h->plen)
    gh = common.sym(m, "get_hashfn")
    sn = list(gh.calls("strncmp"))
    fo = [x["off"] for x in m.structs["struct.hashfn"]["fields"]]
    if len(sn) != 1:
        chk.fail("R-TABLE-SHAPE", "get_hashfn:strncmp", "get_hashfn has %d strncmp calls (expected 1)" % len(sn), common.short(gh.file))
    else:
        a0, a1, a2 = (ir.expr(gh, o) for o in sn[0].ops)
        okk = a0 == (gh.params[0]["name"]) and re.match(r"^load\(.*\)$", a1) and re.match(r"^load\(.*\+%d\)$" % fo[1], a2)
        if okk:
            chk.ok("R-TABLE-SHAPE", "get_hashfn:strncmp", sample={"call": "strncmp(%s,%s,%s)" % (a0, a1, a2)})
        else:
            chk.fail("R-TABLE-SHAPE", "get_hashfn:strncmp", "lookup compares strncmp(%s,%s,%s), expected (setting, h->prefix, h->plen)" % (a0, a1, a2), common.loc(sn[0]))
    # ---- R-PREFERRED
    chk.rule("R-PREFERRED", "preferred method constant == gensalt's NULL-prefix default == first enabled DEFAULT row; strong")
    pm = common.sym(m, "crypt_preferred_method")
    pp = ir.enumerate_paths(pm)
    vals = set()
    for lits, rv, st, trail in pp:
        vals.add(ir.expr(pm, rv, 6, st.phis) if rv is not None else None)
    want = None
    for c in conf:
        if c["name"] in enabled and "DEFAULT" in c["flags"]:
            want = c["prefix"]
            break
    got = None
    if len(vals) == 1:
        v = vals.pop()
        got = None if v == "NULL" else (eval(v) if v and v[0] in "'\"" else v)
    if got != want:
        chk.fail("R-PREFERRED", "preferred", "crypt_preferred_method returns %r; first enabled DEFAULT entry of hashes.conf is %r" % (got, want), common.short(pm.file))
    else:
        chk.ok("R-PREFERRED", "preferred", sample={"returns": got})
    # gensalt: value passed to get_hashfn when prefix == NULL
    gs = common.sym(m, "crypt_gensalt_rn")
    calls = list(gs.calls("get_hashfn"))
    if len(calls) != 1:
        raise AnalysisBroken("crypt_gensalt_rn has %d get_hashfn calls" % len(calls))
    arg = calls[0].ops[0]
    defaults = set()
    prefix_param = gs.params[0]["id"]
    if arg[0] == "v" and gs.insts.get(arg[1]) is not None and gs.insts[arg[1]].op == "phi":
        for o, b in gs.insts[arg[1]].d["inc"]:
            if not (o[0] == "v" and o[1] == prefix_param):
                defaults.add(ir.expr(gs, o))
    elif arg[0] == "v" and arg[1] == prefix_param:
        defaults.add(None)   # no default substitution compiled in
    else:
        defaults.add(ir.expr(gs, arg))
    dv = None
    if len(defaults) == 1:
        d = defaults.pop()
        dv = None if d is None else (eval(d) if d[0] in "'\"" else d)
    else:
        dv = sorted(map(str, defaults))
    if dv != want:
        chk.fail("R-PREFERRED", "gensalt-default", "crypt_gensalt_rn substitutes %r for a NULL prefix; crypt_preferred_method/hashes.conf say %r" % (dv, want), common.loc(calls[0]))
    else:
        chk.ok("R-PREFERRED", "gensalt-default", sample={"null_prefix_becomes": dv})
    if want is not None:
        sel = None
        for r in rows:
            if r["plen"] > 0 and want.startswith(r["prefix"]):
                sel = r
                break
        if sel is None or not sel["is_strong"]:
            chk.fail("R-PREFERRED", "strong", "preferred prefix %r selects %s which is not strong" % (want, sel and sel["crypt"]), "lib/hashes.conf")
        else:
            chk.ok("R-PREFERRED", "strong", sample={"row": sel["crypt"]})
        # after the lookup the function does not consult `prefix` again
        later = [U for U in gs.users(arg[1] if arg[0] == "v" else prefix_param) if U.id != calls[0].id and U.op not in ("phi",)]
        later = [U for U in later if not gs.dominates(U, calls[0]) or U.block == calls[0].block and U.idx > calls[0].idx]
        if later:
            chk.fail("R-PREFERRED", "prefix-reuse", "crypt_gensalt_rn looks at the prefix again after the lookup (%s)" % later[0].op, common.loc(later[0]))
        else:
            chk.ok("R-PREFERRED", "prefix-reuse")
    if not tag:
        chk.note("paths_crypt_checksalt", npaths)
        chk.note("table_rows", len(rows))
        chk.note("status_codes", codes)
    return rows, want
