"""C19 - every --enable-hashes selection yields a coherent library.

For each hash selection S (headers regenerated with the repo's generators, all units recompiled):
R-CFG-BUILDS      every unit compiles and the linked module has no undefined library-internal symbol
R-CFG-TABLE       the compiled hash table has exactly S's methods, in the full build's order, with the
                  full build's (prefix, plen, functions, nrbytes, is_strong)
R-CFG-SAMECODE    every function reachable from an enabled row has the same canonical structural hash
                  as in the full build, except the documented variant functions
R-CFG-UNREACHABLE no crypt_X_rn / gensalt_X_rn of a disabled method is reachable from the API, except
                  through the frozen sharing table, in which case the refusal guard is present
R-CFG-GUARDS      shared code refuses the disabled sibling's prefix (scrypt<->yescrypt in crypt_yescrypt_rn)
R-CFG-DEFAULT     default prefix / crypt_preferred_method / CRYPT_GENSALT_IMPLEMENTS_DEFAULT_PREFIX follow
                  hashes.conf's DEFAULT flags; C18's table, checksalt and preferred rules hold for S
"""
import hashlib, json, os, random, re, shutil
from concurrent.futures import ProcessPoolExecutor
from .. import common, front, ir
from ..report import AnalysisBroken, Check
from . import c18, c08

LEVEL = "other"
TECHNIQUE = "configuration-matrix driver: regenerate headers and recompile per selection; table comparison, canonical structural hashing of functions, call-graph reachability and dominance of refusal guards on the LLVM IR"

VARIANT_FUNCS = {"_crypt_crypt_yescrypt_rn", "_crypt_crypt_bigcrypt_rn", "_crypt_gensalt_bigcrypt_rn", "get_hashfn",
                 "_crypt_crypt_gensalt_rn", "_crypt_crypt_preferred_method", "do_crypt", "_crypt_crypt_checksalt"}
# disabled method -> functions of it that may stay reachable because an enabled method shares them
SHARING = {
    "yescrypt": {"needs": {"scrypt", "gost_yescrypt"}, "fns": {"_crypt_crypt_yescrypt_rn", "_crypt_gensalt_yescrypt_rn"}},
    "descrypt": {"needs": {"bigcrypt"}, "fns": {"_crypt_gensalt_descrypt_rn", "_crypt_crypt_descrypt_rn"}},
    "bcrypt": {"needs": {"bcrypt_a", "bcrypt_x", "bcrypt_y"}, "fns": set()},
}
LIBC = set(c08.MT_SAFE) | {"strcpy", "strncpy", "memchr"}


_LAYOUT = {}


def set_layouts(m):
    """struct names are replaced by a signature of their layout: llvm-link merges identically laid out types
    (MD5_CTX becomes MD4_CTX when both exist) and renames colliding ones (%struct.X.5)"""
    _LAYOUT.clear()
    for name, st in m.structs.items():
        sig = "%d:" % st["size"] + ",".join("%d+%d" % (f["off"], f["size"]) for f in st["fields"])
        _LAYOUT[name] = "%S" + hashlib.sha1(sig.encode()).hexdigest()[:8]


def tnorm(t):
    return re.sub(r"%((?:struct|union)\.[A-Za-z0-9_.]+)", lambda mm: _LAYOUT.get(mm.group(1), "%S?"), t)


def canon_hashes(m):
    """canonical structural hash per defined function (independent of llvm-link's renaming of private symbols)"""
    memo = {}
    set_layouts(m)

    def gkey(name):
        g = m.globals.get(name)
        if g is None:
            return "G?" + name
        if g["linkage"] in ("private",) or name.startswith(".str"):
            return "P" + hashlib.sha1((g.get("init") or "").encode()).hexdigest()[:12]
        if g["linkage"] == "internal":
            return "I" + re.sub(r"\.\d+$", "", name) + ":" + hashlib.sha1((g.get("init") or "").encode()).hexdigest()[:12]
        return "G" + name

    def okey(F, o, stack):
        if o[0] == "v":
            return "v%d" % o[1]
        if o[0] == "c":
            return "c%s:%s" % (o[1], o[2])
        if o[0] == "g":
            return gkey(o[1])
        if o[0] == "f":
            return fkey(o[1], stack)
        if o[0] == "e":
            return "e%s(%s)%s" % (o[1], ",".join(okey(F, x, stack) for x in o[2]), o[3] if len(o) > 3 else "")
        if o[0] == "b":
            return "b%d" % o[1]
        return o[0]

    def fkey(name, stack):
        name = m.resolve(name)
        F = m.functions.get(name)
        if F is None:
            return "X" + name
        if F.linkage == "external" or name in VARIANT_FUNCS:
            return "F" + name          # identity by name; its own body is compared separately
        return "L" + fhash(name, stack)

    def fhash(name, stack=()):
        if name in memo:
            return memo[name]
        if name in stack:
            return "REC"
        F = m.functions[name]
        h = hashlib.sha1()
        h.update(("%s|%s" % (tnorm(F.d["fty"]), len(F.order))).encode())
        for b in F.order:
            for I in F.blocks[b]:
                parts = [I.op, tnorm(I.ty or ""), I.d.get("pred", ""), str(I.d.get("size", "")), tnorm(str(I.d.get("srcty", ""))), str(I.d.get("cpart", "")),
                         str(I.d.get("succs", "")), str(I.d.get("cases", ""))]
                if I.is_call:
                    parts.append(fkey(I.callee, stack + (name,)) if I.callee else "ind:" + (okey(F, I.d["target"], stack + (name,)) if I.d.get("target") else "asm:" + str(I.d.get("asm"))))
                for o in I.ops:
                    parts.append(okey(F, o, stack + (name,)))
                if I.op == "phi":
                    for o, bb in I.d["inc"]:
                        parts.append(okey(F, o, stack + (name,)) + "@%d" % bb)
                h.update(("|".join(parts) + "\n").encode())
        memo[name] = h.hexdigest()[:16]
        return memo[name]
    return {n: fhash(n) for n in m.functions}


def base(name):
    return re.sub(r"\.\d+$", "", name)


def analyse_selection(args):
    """runs in a worker process: returns a plain dict of facts about one selection"""
    sel, full_order = args
    try:
        info = front.build("shared", hashes=sel)
    except Exception as e:
        return {"sel": sel, "error": "build: %r" % (e,)}
    if "compile_errors" in info or "link_errors" in info:
        return {"sel": sel, "compile_errors": info.get("compile_errors") or info.get("link_errors")}
    m = ir.Module(info["facts"])
    out = {"sel": sel, "info": {k: info[k] for k in ("incdir", "enabled", "dir")}}
    out["undefined"] = sorted(n for n in m.decls if not n.startswith("llvm.") and n not in LIBC)
    tbl = m.hash_table()
    out["rows"] = tbl["rows"] if tbl else None
    out["hashes"] = canon_hashes(m)
    api = [common.sym(m, n, required=False) for n in common.ALL_API]
    out["missing_api"] = [n for n, f in zip(common.ALL_API, api) if f is None]
    R = m.reach([f.name for f in api if f is not None])
    out["reach"] = sorted(R)
    # C18 rules for this selection
    sub = Check("C19", "quick")
    sub.known = {}
    try:
        c18.check_module(sub, m, info, tag="%s:" % "+".join(sel))
    except AnalysisBroken as e:
        out["c18_broken"] = str(e)
    out["c18_viol"] = [(v["rule"], v["instance"], v["message"], v["loc"]) for v in sub.violations]
    out["c18_ok"] = sum(r["ok"] for r in sub.rules.values())
    # refusal guards in crypt_yescrypt_rn
    g = {}
    F = common.sym(m, "crypt_yescrypt_rn", required=False)
    if F is not None:
        guards = []
        for c in F.calls("strncmp"):
            s = m.operand_cstring(c.ops[1]) or m.operand_cstring(c.ops[0])
            guards.append(s.decode() if s else None)
        g["yescrypt_rn_strncmp"] = guards
        # each guard must lead to errno=EINVAL+return when equal, and dominate the yescrypt_r call
        yr = [c for c in F.calls() if (c.callee or "").endswith("yescrypt_r")]
        ok = {}
        pf = ir.PathFinder(F)
        for c in F.calls("strncmp"):
            s = m.operand_cstring(c.ops[1])
            if not s or not yr:
                continue
            st = pf.dominating_facts(yr[0].block)
            lits = [ir.atom_str(F, a, st) for a in st.facts]
            ok[s.decode()] = any(p_ == "ne" and a_.startswith("strncmp(") and repr(s.decode()) in a_ and b_ == "0" for p_, a_, b_ in lits)
        g["dominating_refusals"] = ok
    out["guards"] = g
    out["dispatch"] = dispatch(m, info)
    # fail-closed structure of this selection's own code (the variant functions differ from the full build by design)
    from . import c05
    from .. import summ
    sub5 = Check("C19", "quick")
    sub5.known = {}
    try:
        S5 = summ.Summaries(m)
        roles = c05.no_err_after_write(sub5, m, S5, "+".join(sel))
        c05.no_write_after_err(sub5, m, S5, "+".join(sel), roles)
        c05.err_set(sub5, m, S5, "+".join(sel), roles)
    except AnalysisBroken as e:
        out["c05_broken"] = str(e)
    out["c05_viol"] = [(v["rule"], v["instance"], v["message"], v["loc"]) for v in sub5.violations]
    out["c05_ok"] = sum(r["ok"] for r in sub5.rules.values())
    txt = open(os.path.join(info["incdir"], "crypt.h")).read()
    mm = re.search(r"#define\s+CRYPT_GENSALT_IMPLEMENTS_DEFAULT_PREFIX\s+(\d+)", txt)
    out["implements_default"] = int(mm.group(1)) if mm else None
    return out


def dispatch(m, info):
    """abstract interpretation of get_hashfn for the prefix of every method of hashes.conf followed by an arbitrary
    filter-clean tail: the set of table rows (byte offsets) / NULL it can return"""
    from .. import xai, crypt_grid as K
    F = common.sym(m, "get_hashfn", required=False)
    st = m.structs.get("struct.hashfn")
    if F is None or not st:
        return {"error": "get_hashfn or struct hashfn not found"}
    cells = []
    for c in c18.read_hashes_conf():
        p = c["prefix"].encode()
        reg = {"name": "setting", "kind": "cstr", "bytes": p.hex(), "tail": True, "prov": "setting", "tailset": K.set_hex(K.CLEAN | {0})}
        if p == b"":
            reg["headsets"] = [K.set_hex(K.A64), K.set_hex(K.A64)]
        cells.append(xai.simple_cell(c["name"], F.name, [reg], [{"ptr": "setting"}]))
    res = xai.run_cells(info["bc"], cells, {"maxPaths": 2000}, jobs=2)
    out = {"rowsize": st["size"], "cells": {}}
    for cid, c in res.items():
        out["cells"][cid] = {"rets": sorted({p["ret"] for p in c["paths"]}), "alarms": sorted({a["kind"] + ":" + a["msg"] for p in c["paths"] for a in p["alarms"]})[:3], "budget": c["budget"]}
    return out


def selections(tier, seed):
    conf = c18.read_hashes_conf()
    names = [c["name"] for c in conf]
    sels = []
    sels.append(("all", list(names)))
    for n in names:
        sels.append(("only-" + n, [n]))
    for n in names:
        sels.append(("no-" + n, [x for x in names if x != n]))
    flags = sorted({f for c in conf for f in c["flags"] if f not in ("DEFAULT",)})
    for f in flags:
        s = [c["name"] for c in conf if f in c["flags"]]
        if s:
            sels.append(("group-" + f.lower(), s))
    rnd = random.Random(seed)
    nrand = 8 if tier == "quick" else 160
    for i in range(nrand):
        k = rnd.randint(1, len(names) - 1)
        sels.append(("rand%d" % i, sorted(rnd.sample(names, k), key=names.index)))
    # interesting sharing combinations
    sels += [("scrypt+gost", ["gost_yescrypt", "scrypt"]), ("bigcrypt+nt", ["nt", "bigcrypt"]), ("yescrypt+descrypt", ["yescrypt", "descrypt"]),
             ("weak-only", ["md5crypt", "nt", "descrypt"]), ("bcrypt-variants", ["bcrypt_a", "bcrypt_x"])]
    seen = set()
    out = []
    for n, s in sels:
        k = tuple(sorted(s))
        if k in seen:
            continue
        seen.add(k)
        out.append((n, sorted(s, key=names.index)))
    return out, conf


def run(chk, tier):
    chk.explanation = __doc__
    for r, d in (("R-CFG-BUILDS", "selection compiles and links (no undefined internal symbol, all API entry points defined)"),
                 ("R-CFG-TABLE", "compiled table == enabled rows of the full build, same order and values"),
                 ("R-CFG-SAMECODE", "functions reachable from enabled rows are structurally identical to the full build"),
                 ("R-CFG-UNREACHABLE", "disabled methods' entry points unreachable unless shared, then guarded"),
                 ("R-CFG-DISPATCH", "get_hashfn, interpreted abstractly on <prefix><any clean tail>, returns exactly the row of an enabled method and NULL for every prefix without an enabled row"),
                 ("R-CFG-FAILCLOSED", "C05's structural fail-closed rules (no errno after a write, no write after a failure code, every return writes or sets errno) hold in the code of every selection"),
                 ("R-CFG-GUARDS", "shared yescrypt code refuses the disabled sibling's prefix before hashing"),
                 ("R-CFG-DEFAULT", "default prefix / preferred method / header macro follow hashes.conf; C18 rules hold per selection")):
        chk.rule(r, d)
    sels, conf = selections(tier, chk.seed)
    names = [c["name"] for c in conf]
    byname = {c["name"]: c for c in conf}
    m_full, info_full = common.prog("shared")
    if sorted(info_full["enabled"]) != sorted(names):
        chk.assumptions.append("the pinned configuration does not enable all hashes; the reference build for code identity is built with all of hashes.conf")
    ref = analyse_selection((names, names))
    if "hashes" not in ref:
        raise AnalysisBroken("reference (all hashes) build failed: %s" % (ref.get("compile_errors") or ref.get("error")))
    ref_by_base = {}
    for fn, h in ref["hashes"].items():
        ref_by_base.setdefault(base(fn), set()).add(h)
    ref_rows = {r["crypt"]: r for r in ref["rows"] if r["prefix"] is not None}
    ref_order = [r["crypt"] for r in ref["rows"] if r["prefix"] is not None]
    with ProcessPoolExecutor(6) as ex:
        results = list(ex.map(analyse_selection, [(s, names) for n, s in sels]))
    m_ref = None
    for (sname, sel), res in zip(sels, results):
        tag = sname
        if "error" in res:
            raise AnalysisBroken("selection %s: %s" % (sname, res["error"]))
        if "compile_errors" in res:
            ce = res["compile_errors"]
            first = ce[0] if isinstance(ce, list) else ce
            chk.fail("R-CFG-BUILDS", tag, "selection {%s} does not compile/link: %s" % (",".join(sel), str(first)[:300]), "lib/", {"selection": sel})
            continue
        if res["undefined"] or res["missing_api"]:
            chk.fail("R-CFG-BUILDS", tag + ":link", "selection {%s}: undefined internal symbols %s / missing API %s" % (",".join(sel), res["undefined"][:5], res["missing_api"]), "lib/", {"selection": sel})
        else:
            chk.ok("R-CFG-BUILDS", tag, sample={"selection": sel})
        # table
        rows = [r for r in res["rows"] if r["prefix"] is not None]
        want = [c for c in ref_order if re.sub(r"^_crypt_crypt_(.*)_rn$", r"\1", c) in sel]
        got = [r["crypt"] for r in rows]
        if got != want:
            chk.fail("R-CFG-TABLE", tag, "selection {%s}: table rows %s, expected %s" % (",".join(sel), got, want), "lib/hashes.conf", {"selection": sel})
        else:
            bad = [r for r in rows if {k: r[k] for k in ("prefix", "plen", "gensalt", "nrbytes", "is_strong")} != {k: ref_rows[r["crypt"]][k] for k in ("prefix", "plen", "gensalt", "nrbytes", "is_strong")}]
            if bad:
                chk.fail("R-CFG-TABLE", tag + ":values", "selection {%s}: row %s differs from the full build's row" % (",".join(sel), bad[0]), "lib/hashes.conf")
            else:
                chk.ok("R-CFG-TABLE", tag)
        if res["rows"][-1]["prefix"] is not None:
            chk.fail("R-CFG-TABLE", tag + ":sentinel", "selection {%s}: table lost its NULL sentinel" % ",".join(sel), "lib/crypt.c")
        # same code: everything reachable that also exists in the reference
        reach = set(res["reach"])
        diff = []
        for fn in sorted(reach):
            if fn in VARIANT_FUNCS or fn not in res["hashes"]:
                continue
            cands = ref_by_base.get(base(fn))
            if not cands:
                diff.append((fn, "not in full build"))
            elif res["hashes"][fn] not in cands:
                diff.append((fn, "differs"))
        if diff:
            for fn, why in diff[:6]:
                chk.fail("R-CFG-SAMECODE", "%s:%s" % (tag, fn), "selection {%s}: function %s %s (enabled methods must compute exactly what the full build computes)" % (",".join(sel), fn, why), "lib/", {"selection": sel})
        else:
            chk.count("R-CFG-SAMECODE", len(reach), ["%s" % tag])
        # unreachable
        for n in names:
            if n in sel:
                continue
            for fn in ("_crypt_crypt_%s_rn" % n, "_crypt_gensalt_%s_rn" % n):
                if fn in reach:
                    sh = SHARING.get(n)
                    if sh and fn in sh["fns"] and (sh["needs"] & set(sel)):
                        chk.ok("R-CFG-UNREACHABLE", "%s:%s:shared" % (tag, fn))
                    else:
                        chk.fail("R-CFG-UNREACHABLE", "%s:%s" % (tag, fn), "selection {%s}: %s of the disabled method %s is reachable from the API" % (",".join(sel), fn, n), "lib/", {"selection": sel})
                else:
                    chk.ok("R-CFG-UNREACHABLE", "%s:%s" % (tag, fn))
        # guards
        g = res["guards"]
        if ("scrypt" in sel or "gost_yescrypt" in sel or "yescrypt" in sel):
            need = []
            if "yescrypt" not in sel and ("scrypt" in sel):
                need.append("$y$")
            if "scrypt" not in sel and "yescrypt" in sel:
                need.append("$7$")
            for pfx in need:
                if not g.get("dominating_refusals", {}).get(pfx):
                    chk.fail("R-CFG-GUARDS", "%s:%s" % (tag, pfx), "selection {%s}: crypt_yescrypt_rn does not refuse the disabled prefix %s before hashing" % (",".join(sel), pfx), "lib/crypt-yescrypt.c", {"selection": sel, "guards": g})
                else:
                    chk.ok("R-CFG-GUARDS", "%s:%s" % (tag, pfx), sample={"selection": sel, "refuses": pfx})
        # dispatch: every enabled method's prefix selects its own row, every other prefix selects nothing
        d = res["dispatch"]
        if "error" in d:
            raise AnalysisBroken("selection %s: %s" % (sname, d["error"]))
        for c in conf:
            cell = d["cells"].get(c["name"])
            if cell is None or cell["budget"] or cell["alarms"]:
                raise AnalysisBroken("selection %s: get_hashfn not analysable for %s: %s" % (sname, c["name"], cell))
            idx = next((i for i, r in enumerate(rows) if r["prefix"] == c["prefix"]), None)
            if c["name"] not in sel and idx is not None:
                continue        # the prefix is shared with an enabled sibling (descrypt/bigcrypt): decided by the sibling's instance
            want_ret = ["null"] if idx is None else ["ptr:@hash_algorithms+%d" % (idx * d["rowsize"])]
            if cell["rets"] != want_ret:
                what = "is enabled but its prefix %r does not select its table row" % c["prefix"] if c["name"] in sel else "is disabled but its prefix %r is not refused like an unknown one" % c["prefix"]
                chk.fail("R-CFG-DISPATCH", "%s:%s" % (tag, c["name"]), "selection {%s}: %s %s: get_hashfn returns %s, expected %s" % (",".join(sel), c["name"], what, cell["rets"], want_ret),
                         "lib/crypt.c", {"selection": sel})
            else:
                chk.ok("R-CFG-DISPATCH", "%s:%s" % (tag, c["name"]))
        # fail-closed structure per selection
        if res.get("c05_broken"):
            raise AnalysisBroken("selection %s: %s" % (sname, res["c05_broken"]))
        for rule, inst, msg, loc in res["c05_viol"]:
            chk.fail("R-CFG-FAILCLOSED", "%s:%s:%s" % (tag, rule, inst), "selection {%s}: %s" % (",".join(sel), msg), loc, {"selection": sel})
        chk.count("R-CFG-FAILCLOSED", res["c05_ok"], [tag + ":c05"])
        # default
        dflt = next((byname[n]["prefix"] for n in names if n in sel and "DEFAULT" in byname[n]["flags"]), None)
        if (res["implements_default"] == 1) != (dflt is not None):
            chk.fail("R-CFG-DEFAULT", tag + ":macro", "selection {%s}: CRYPT_GENSALT_IMPLEMENTS_DEFAULT_PREFIX=%s but default prefix is %r" % (",".join(sel), res["implements_default"], dflt), "lib/crypt.h.in")
        else:
            chk.ok("R-CFG-DEFAULT", tag + ":macro")
        if res.get("c18_broken"):
            raise AnalysisBroken("selection %s: %s" % (sname, res["c18_broken"]))
        for rule, inst, msg, loc in res["c18_viol"]:
            chk.fail("R-CFG-DEFAULT", "%s:%s:%s" % (tag, rule, inst), "selection {%s}: %s" % (",".join(sel), msg), loc, {"selection": sel})
        chk.count("R-CFG-DEFAULT", res["c18_ok"], [tag + ":c18"])
    chk.note("selections", {"count": len(sels), "names": [n for n, s in sels]})
    chk.extra["exhaustive"] = False
    chk.assumptions += ["selections analysed: all, 16 singletons, 16 leave-one-out, the named groups of hashes.conf, sharing-sensitive pairs and seeded random subsets (not all 65 535)",
                        "'computes the same hashes' is decided as structural identity of every reachable function with the full build (identical code => identical results); the variant functions %s are covered by the table/guard/default rules instead" % sorted(VARIANT_FUNCS),
                        "the feature axis of configure (obsolete API, failure tokens) is not varied"]
