"""C20 - binary interface stays compatible with released libcrypt.so.1.

W-LAYOUT   compile-fail witnesses (_Static_assert + re-declarations) against the
           crypt.h regenerated from /repo's crypt.h.in: struct size, field offsets and
           sizes, public constants, prototypes.  The oracle numbers are themselves
           witnessed against the released header installed in the image.
R-SYMVER   (symbol, version, default?) bindings read back from the `.symver`
           directives clang emits for the shared flavour, joined with IR aliases:
           superset of the released export set, each version node present in the
           regenerated libcrypt.map with the symbol global, all versions of a name bind
           to one definition.
R-COMPAT-ALIAS  compat-only names are IR aliases of their modern counterparts.
"""
import json, os, re, subprocess, tempfile, shutil
from .. import common, front, ir
from ..report import AnalysisBroken

LEVEL = "proof"
TECHNIQUE = "compile-fail witnesses (_Static_assert) + symbol-version/alias read-back from LLVM IR and the generated linker map"


def witness_source(abi, header, with_protos=True):
    L = ['#include <stddef.h>', '#include "%s"' % header]
    n = 0
    L.append('_Static_assert(sizeof(struct crypt_data) == %d, "W: sizeof(struct crypt_data) != %d");'
             % (abi["struct_size"], abi["struct_size"])); n += 1
    for name, off, size in abi["fields"]:
        L.append('_Static_assert(offsetof(struct crypt_data, %s) == %d, "W: offsetof(crypt_data.%s) != %d");' % (name, off, name, off)); n += 1
        L.append('_Static_assert(sizeof(((struct crypt_data *)0)->%s) == %d, "W: sizeof(crypt_data.%s) != %d");' % (name, size, name, size)); n += 1
    for k, v in abi["constants"].items():
        L.append('#ifndef %s\n#error "W: %s is not defined"\n#endif' % (k, k))
        L.append('_Static_assert((%s) == %d, "W: %s != %d");' % (k, v, k, v)); n += 2
    if with_protos:
        for p in abi["prototypes"]:
            L.append("extern " + p); n += 1
    return "\n".join(L) + "\n", n


def compile_witness(src, incdirs):
    d = tempfile.mkdtemp(prefix="verif-wit-")
    try:
        p = os.path.join(d, "w.c")
        with open(p, "w") as f:
            f.write(src)
        cmd = [front.CLANG, "-std=gnu11", "-fsyntax-only", "-ferror-limit=0", "-D_GNU_SOURCE"] + \
              ["-I" + i for i in incdirs] + [p]
        r = subprocess.run(cmd, stdout=subprocess.PIPE, stderr=subprocess.PIPE, text=True)
        errs = [l for l in r.stderr.split("\n") if " error: " in l]
        return r.returncode, errs
    finally:
        shutil.rmtree(d, ignore_errors=True)


def parse_map(text):
    """version node -> set of global symbols"""
    nodes = {}
    for m in re.finditer(r"([A-Za-z0-9_.]+)\s*\{(.*?)\}\s*([A-Za-z0-9_.]*)\s*;", text, re.S):
        name, body = m.group(1), m.group(2)
        g = set()
        sect = None
        for tok in re.split(r"[;\s]+", body):
            if tok in ("global:", "local:"):
                sect = tok
            elif tok and sect == "global:":
                g.add(tok)
        nodes[name] = g
    return nodes


def run(chk, tier):
    chk.explanation = __doc__
    abi = json.load(open(os.path.join(front.VERIF, "oracles", "released_abi.json")))
    m, info = common.prog("shared", symver_asm=True)
    inc = info["incdir"]
    # ---- W-LAYOUT against the regenerated header
    src, n = witness_source(abi, os.path.join(inc, "crypt.h"))
    rc, errs = compile_witness(src, [])
    chk.rule("W-LAYOUT", "static_assert / re-declaration witnesses against the regenerated crypt.h")
    if rc == 0:
        chk.count("W-LAYOUT", n, ["w%d" % i for i in range(n)])
        chk.samples.append({"rule": "W-LAYOUT", "instance": "offsetof(struct crypt_data, internal) == 2048", "detail": "compiles"})
    else:
        if not errs:
            raise AnalysisBroken("witness TU failed without a diagnosable error")
        bad = 0
        for e in errs:
            mm = re.search(r'error: (.*)$', e)
            msg = mm.group(1) if mm else e
            mw = re.search(r'"?W: ([^"]*)"?', msg)
            inst = mw.group(1) if mw else re.sub(r"\s+", " ", msg)[:80]
            chk.fail("W-LAYOUT", inst, "compile-fail witness: " + msg, "lib/crypt.h.in", {"diagnostic": e})
            bad += 1
        chk.count("W-LAYOUT", max(0, n - bad))
    # ---- oracle numbers against the released header in the image
    rel = "/usr/include/crypt.h"
    if os.path.exists(rel):
        src2, n2 = witness_source(abi, rel)
        rc2, errs2 = compile_witness(src2, [])
        if rc2 != 0:
            raise AnalysisBroken("oracle numbers disagree with the released header %s: %s" % (rel, errs2[:3]))
        chk.count("W-ORACLE", n2)
        chk.rules["W-ORACLE"]["desc"] = "the same witnesses hold for the released header installed in the image"
    else:
        chk.assumptions.append("released header /usr/include/crypt.h absent: oracle numbers taken from oracles/released_abi.json unverified")
    # ---- R-SYMVER
    chk.rule("R-SYMVER", "every released (symbol,version) is bound by a .symver directive to a definition and listed global in the regenerated map")
    directives = []
    for line in m.module_asm.split("\n"):
        mm = re.match(r"\s*\.symver\s+([A-Za-z0-9_.$]+)\s*,\s*([A-Za-z0-9_]+)(@@?)([A-Za-z0-9_.]+)", line)
        if mm:
            directives.append((mm.group(1), mm.group(2), mm.group(3), mm.group(4)))
    if len(directives) < 10:
        raise AnalysisBroken("only %d .symver directives read back (expected ~29): shadow-config compile lost" % len(directives))
    mp = parse_map(open(os.path.join(inc, "libcrypt.map")).read())
    have = {}
    binds = {}
    for internal, ext, mode, ver in directives:
        tgt = m.resolve(internal)
        have["%s%s%s" % (ext, mode, ver)] = tgt
        binds.setdefault(ext, set()).add(tgt)
    for sv in abi["symbol_versions"]:
        ext, ver = re.split("@@?", sv)
        if sv not in have:
            alt = sv.replace("@@", "@") if "@@" in sv else sv.replace("@", "@@")
            if alt in have:
                chk.fail("R-SYMVER", sv, "released symbol version %s changed default-ness (now %s)" % (sv, alt), "lib/libcrypt.map.in")
            else:
                chk.fail("R-SYMVER", sv, "released symbol version %s is no longer exported (no .symver directive)" % sv, "lib/libcrypt.map.in")
            continue
        tgt = have[sv]
        if tgt not in m.functions:
            chk.fail("R-SYMVER", sv, "%s is bound to %s which is not defined in the library" % (sv, tgt), "lib/libcrypt.map.in")
            continue
        if m.functions[tgt].linkage != "external":
            chk.fail("R-SYMVER", sv, "%s is bound to non-external %s" % (sv, tgt), common.short(m.functions[tgt].file))
            continue
        if ver not in mp or ext not in mp[ver]:
            chk.fail("R-SYMVER", sv + ":map", "version node %s does not list %s as global in the regenerated libcrypt.map" % (ver, ext),
                     "lib/libcrypt.map.in")
            continue
        chk.ok("R-SYMVER", sv, sample={"binds_to": tgt, "map_node": ver})
    for ext, tg in sorted(binds.items()):
        if len(tg) > 1:
            chk.fail("R-SYMVER-ONE", ext, "versions of %s bind to different definitions %s: old binaries would get different code" % (ext, sorted(tg)), "lib/")
        else:
            chk.ok("R-SYMVER-ONE", ext)
    chk.rules["R-SYMVER-ONE"]["desc"] = "all versions of one exported name bind to a single definition"
    # every exported name binds to the function of that name
    for ext, tg in sorted(binds.items()):
        t = sorted(tg)[0]
        want = abi["compat_aliases"].get(ext, ext)
        if t != "_crypt_" + want and t != want:
            chk.fail("R-COMPAT-ALIAS", ext, "%s is bound to %s, expected the definition of %s" % (ext, t, want),
                     common.short(m.functions[t].file) if t in m.functions else "lib/")
        else:
            chk.ok("R-COMPAT-ALIAS", ext, sample={"exported": ext, "definition": t})
    chk.rules["R-COMPAT-ALIAS"]["desc"] = "compat-only names (xcrypt*, fcrypt, crypt_gensalt_r) are the modern function itself (IR alias)"
    for a, want in abi["compat_aliases"].items():
        if a not in binds:
            chk.fail("R-COMPAT-ALIAS", a + ":missing", "compat symbol %s not exported" % a, "lib/libcrypt.map.in")
    # obsolete DES API present as real definitions
    for n_ in common.OBSOLETE_API:
        f = common.sym(m, n_, required=False)
        if f is None:
            chk.fail("R-COMPAT-ALIAS", n_ + ":def", "obsolete API %s not defined in the shared flavour" % n_, "lib/crypt-des-obsolete.c")
        else:
            chk.ok("R-COMPAT-ALIAS", n_ + ":def")
    chk.floor("R-SYMVER", 25, "released symbol versions")
    chk.note("symver_directives", len(directives))
    chk.note("map_nodes", {k: sorted(v) for k, v in mp.items()})
    chk.trusted_base = ["clang 14 front end (constant evaluation of _Static_assert, type compatibility of re-declarations)",
                        "the repo's own perl generators", "GNU as/ld semantics of .symver and version scripts",
                        "oracles/released_abi.json (witnessed against /usr/include/crypt.h)"]
    # encrypt*/setkey* have no modern counterpart: their behaviour is the released one iff they hand the unchanged block,
    # key and direction (edflag != 0) to the DES worker with salt 0 and count 1 (C17's sibling rule, imported)
    from . import c17
    from ..report import Check
    sub = Check("C20", tier)
    sub.known = {}
    c17.run(sub, tier)
    chk.rule("R-COMPAT-DES", "compat-only encrypt/encrypt_r/setkey/setkey_r pass block, key and direction (edflag != 0) unchanged to the DES worker (imported from C17)")
    for v in sub.violations:
        if v["rule"] in ("R-DES-SIBLINGS", "R-DES-STATE"):
            chk.fail("R-COMPAT-DES", v["instance"], v["message"], v["loc"], v["detail"])
    chk.count("R-COMPAT-DES", sub.rules.get("R-DES-SIBLINGS", {"ok": 0})["ok"] + sub.rules.get("R-DES-STATE", {"ok": 0})["ok"], ["des-obsolete"])
    chk.assumptions += ["x86-64 SysV data layout (the pinned target)",
                        "behavioural identity of compat names is by symbol identity; setkey/encrypt behaviour is under C17"]
