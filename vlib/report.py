"""Check bookkeeping: rule instances (obligations), violations, known
findings, evidence file, replay files, exit codes (0 ok / 1 violation /
2 analysis broken)."""
import json, os, re, sys, time

VERIF = os.path.dirname(os.path.dirname(os.path.abspath(__file__)))
# VERIF_OUT redirects evidence and replay files (used by tools/seedsweep.sh so that experiments on scratch copies of the
# repository never touch the committed evidence)
EVID = os.path.join(os.environ.get("VERIF_OUT", VERIF), "evidence")
REPLAY = os.path.join(os.environ.get("VERIF_OUT", VERIF), "replay")
KNOWN = os.path.join(VERIF, "known_findings.txt")


class AnalysisBroken(Exception):
    pass


def load_known():
    """finding: property=<id> key=<rule>|<instance> :: text   (suppresses exactly that instance)
       fixed: property=<id> <commit> <text>                   (suppresses nothing)"""
    out = {}
    if not os.path.exists(KNOWN):
        return out
    for line in open(KNOWN):
        line = line.strip()
        m = re.match(r"^finding:\s+property=(\S+)\s+key=(\S+)\s*::\s*(.*)$", line)
        if m:
            out[(m.group(1), m.group(2))] = m.group(3)
    return out


class Check(object):
    def __init__(self, pid, tier, level="other", technique="", seed=0):
        self.pid = pid
        self.tier = tier
        self.level = level
        self.technique = technique
        self.seed = seed
        self.t0 = time.time()
        self.rules = {}           # rule -> {"instances": n, "ok": n, "desc": str}
        self.violations = []
        self.deferred = []        # analysis-incomplete conditions (budget exhausted in some cell): exit 2 unless a violation was found elsewhere
        self.known_hits = []
        self.samples = []
        self.assumptions = []
        self.analysed = {}
        self.trusted_base = []
        self.explanation = ""
        self.distinct = set()
        self.known = load_known()
        self.extra = {}

    # -- recording
    def rule(self, name, desc):
        self.rules.setdefault(name, {"instances": 0, "ok": 0, "desc": desc})

    def ok(self, rule, instance, sample=None):
        r = self.rules.setdefault(rule, {"instances": 0, "ok": 0, "desc": ""})
        r["instances"] += 1
        r["ok"] += 1
        self.distinct.add((rule, str(instance)))
        if sample is not None and sum(1 for s in self.samples if s.get("rule") == rule) < 3:
            self.samples.append({"rule": rule, "instance": str(instance), "detail": sample})

    def count(self, rule, n, distinct_keys=None):
        """bulk-add n discharged obligations"""
        r = self.rules.setdefault(rule, {"instances": 0, "ok": 0, "desc": ""})
        r["instances"] += n
        r["ok"] += n
        if distinct_keys:
            for k in distinct_keys:
                self.distinct.add((rule, str(k)))

    def fail(self, rule, instance, msg, loc="", detail=None):
        r = self.rules.setdefault(rule, {"instances": 0, "ok": 0, "desc": ""})
        r["instances"] += 1
        key = "%s|%s" % (rule, instance)
        key = re.sub(r"\s+", "_", key)
        v = {"property": self.pid, "rule": rule, "instance": str(instance), "key": key,
             "message": msg, "loc": loc, "detail": detail}
        if any(x["key"] == key for x in self.violations) or any(x["key"] == key for x in self.known_hits):
            return
        if (self.pid, key) in self.known:
            self.known_hits.append(v)
            r["ok"] += 0
        else:
            self.violations.append(v)

    def floor(self, rule, n, what=""):
        have = self.rules.get(rule, {"instances": 0})["instances"]
        if have < n:
            raise AnalysisBroken("rule %s matched %d instances, floor is %d (%s): anchor lost"
                                 % (rule, have, n, what))

    def note(self, k, v):
        self.analysed[k] = v

    # -- finishing
    def finish(self):
        os.makedirs(EVID, exist_ok=True)
        os.makedirs(REPLAY, exist_ok=True)
        obligations = sum(r["instances"] for r in self.rules.values())
        discharged = sum(r["ok"] for r in self.rules.values())
        cov = {
            "obligations": obligations,
            "discharged": discharged,
            "checker_cmd": "bin/check %s --tier %s" % (self.pid, self.tier),
            "trusted_base": self.trusted_base or ["clang 14 C front end", "LLVM sroa/mem2reg",
                                                  "src/irfacts.cc", "vlib/ir.py rule kit"],
            "explanation": self.explanation,
            "evaluations": obligations,
            "distinct_nontrivial": len(self.distinct),
            "rule": "each evaluation is one rule instance (call site, path, table entry, obligation) "
                    "found in the analysed program; distinct = distinct (rule, instance) pairs",
            "samples": self.samples[:12] or [{"note": "no instance"}],
            "rules": {k: {"instances": v["instances"], "discharged": v["ok"], "what": v["desc"]}
                      for k, v in self.rules.items()},
            "analysed": self.analysed,
            "technique": self.technique,
            "known_findings_hit": [v["key"] for v in self.known_hits],
        }
        cov.update(self.extra)
        ev = {"property_id": self.pid, "tier": self.tier, "seed": int(self.seed), "level": self.level,
              "coverage": cov, "assumptions": self.assumptions,
              "wall_s": round(time.time() - self.t0, 3), "violations": len(self.violations)}
        with open(os.path.join(EVID, self.pid + ".json"), "w") as f:
            json.dump(ev, f, indent=1, default=str)
        for r, v in sorted(self.rules.items()):
            print("  rule %-24s instances=%-6d discharged=%-6d %s" % (r, v["instances"], v["ok"], v["desc"][:90]))
        for v in self.known_hits:
            print("KNOWN-FINDING: property=%s %s %s: %s" % (self.pid, v["key"], v["loc"], v["message"]))
        if self.violations:
            for i, v in enumerate(self.violations):
                if i >= 25:
                    print("  ... %d more violations (see evidence / replay files of the first 25)" % (len(self.violations) - 25))
                    break
                p = os.path.join(REPLAY, "%s-%s-%d.json" % (self.pid, self.tier, i))
                with open(p, "w") as f:
                    json.dump(v, f, indent=1, default=str)
                print("  %s %s %s: %s" % (v["rule"], v["instance"], v["loc"], v["message"]))
                print("VIOLATION property=%s replay=%s" % (self.pid, p))
            for d in self.deferred[:5]:
                print("  (analysis incomplete elsewhere: %s)" % d)
            return 1
        if self.deferred:
            raise AnalysisBroken(self.deferred[0] + (" (+%d more)" % (len(self.deferred) - 1) if len(self.deferred) > 1 else ""))
        print("OK property=%s tier=%s obligations=%d discharged=%d wall=%.1fs"
              % (self.pid, self.tier, obligations, discharged, time.time() - self.t0))
        return 0
