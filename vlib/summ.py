"""Bottom-up function summaries over the (acyclic) resolved call graph:
 may_write(F,k)   F (or a callee) may write through a pointer derived from parameter k
 may_err(F)       F (or a callee) may store a non-zero constant to errno / calls an errno-setting libc function on failure
 ret_const(F)     constant returned on every path (or None)
"""
from . import ir

# external functions: which argument indices they write through
EXT_WRITES = {
    "memcpy": [0], "memmove": [0], "memset": [0], "explicit_bzero": [0], "snprintf": [0], "strcpy": [0], "strncpy": [0],
    "arc4random_buf": [0], "strtoul": [1], "read": [1], "getrandom": [0], "getentropy": [0],
    "llvm.memcpy": [0], "llvm.memmove": [0], "llvm.memset": [0],
}
EXT_ERRNO_ON_FAIL = {"malloc", "realloc", "calloc", "mmap", "munmap", "strtoul", "open", "read", "getrandom", "getentropy", "syscall"}


def ext_key(name):
    for k in ("llvm.memcpy", "llvm.memmove", "llvm.memset"):
        if name.startswith(k):
            return k
    return name


class Summaries(object):
    def __init__(self, m):
        self.m = m
        self.cg = m.callgraph()
        self._mw = {}
        self._me = {}
        self._rc = {}
        self._targets = {}
        for fn, I, tg in m.indirect_sites:
            self._targets[(fn, I.id)] = tg

    def callees_of(self, F, I):
        if I.callee is not None:
            return [self.m.resolve(I.callee)]
        if I.d.get("asm") is not None:
            return []
        return self._targets.get((F.name, I.id), [])

    def derived_params(self, F):
        """param id -> set of derived value ids"""
        key = ("der", F.name)
        if key not in self._mw:
            self._mw[key] = {p["id"]: F.based_on([p["id"]]) for p in F.params if p["ty"].endswith("*")}
        return self._mw[key]

    def may_write(self, fname, k, stack=()):
        key = (fname, k)
        if key in self._mw:
            return self._mw[key]
        F = self.m.functions.get(fname)
        if F is None:
            w = k in EXT_WRITES.get(ext_key(fname), [])
            self._mw[key] = w
            return w
        if fname in stack:
            return False
        self._mw[key] = False
        if k >= F.nparams:
            return False
        der = F.based_on([k])
        res = False
        for v in der:
            for U in F.users(v):
                if U.op == "store" and U.ops[1][0] == "v" and U.ops[1][1] in der:
                    res = True
                elif U.is_call:
                    for ai, a in enumerate(U.ops):
                        if a[0] == "v" and a[1] in der:
                            for c in self.callees_of(F, U):
                                if self.may_write(c, ai, stack + (fname,)):
                                    res = True
                if res:
                    break
            if res:
                break
        self._mw[key] = res
        return res

    def write_sites(self, F, k):
        """instructions in F that may write through param k"""
        der = F.based_on([k])
        out = []
        seen = set()
        for v in der:
            for U in F.users(v):
                if U.id in seen:
                    continue
                if U.op == "store" and U.ops[1][0] == "v" and U.ops[1][1] in der:
                    out.append(U); seen.add(U.id)
                elif U.is_call:
                    hit = False
                    for ai, a in enumerate(U.ops):
                        if a[0] == "v" and a[1] in der:
                            for c in self.callees_of(F, U):
                                if self.may_write(c, ai):
                                    hit = True
                    if hit:
                        out.append(U); seen.add(U.id)
        return out

    def errno_sites(self, F, include_ext=False):
        """(inst, kind) with kind 'store' (non-zero constant store to errno) or 'call' (callee may set errno)"""
        out = []
        for I in F.all_insts():
            if I.op == "store" and I.ops[1][0] == "v":
                J = F.insts.get(I.ops[1][1])
                if J is not None and J.is_call and J.callee == "__errno_location":
                    c = ir.cval(I.ops[0], signed=True)
                    if c is not None and c != 0:
                        out.append((I, "store", c))
            elif I.is_call:
                for c in self.callees_of(F, I):
                    if c in self.m.functions:
                        if self.may_err(c):
                            out.append((I, "call", c))
                            break
                    elif include_ext and c in EXT_ERRNO_ON_FAIL:
                        out.append((I, "ext", c))
                        break
        return out

    def may_err(self, fname, stack=()):
        if fname in self._me:
            return self._me[fname]
        F = self.m.functions.get(fname)
        if F is None:
            return False
        if fname in stack:
            return False
        self._me[fname] = False
        res = False
        for I in F.all_insts():
            if I.op == "store" and I.ops[1][0] == "v":
                J = F.insts.get(I.ops[1][1])
                if J is not None and J.is_call and J.callee == "__errno_location":
                    c = ir.cval(I.ops[0], signed=True)
                    if c is not None and c != 0:
                        res = True
                        break
            elif I.is_call:
                for c in self.callees_of(F, I):
                    if c in self.m.functions and self.may_err(c, stack + (fname,)):
                        res = True
                if res:
                    break
        self._me[fname] = res
        return res

    def ret_const(self, fname):
        if fname in self._rc:
            return self._rc[fname]
        F = self.m.functions.get(fname)
        self._rc[fname] = None
        if F is None:
            return None
        vals = set()
        for r in F.rets():
            if not r.ops:
                return None
            stack = [r.ops[0]]
            seen = set()
            while stack:
                o = stack.pop()
                if o[0] == "c":
                    vals.add(ir.cval(o, signed=True))
                elif o[0] == "n":
                    vals.add(0)
                elif o[0] == "v" and o[1] >= F.nparams and F.insts[o[1]].op == "phi":
                    if o[1] in seen:
                        continue
                    seen.add(o[1])
                    for x, b in F.insts[o[1]].d["inc"]:
                        stack.append(x)
                else:
                    return None
        if len(vals) == 1:
            self._rc[fname] = vals.pop()
        return self._rc[fname]

    def const_ret_map(self):
        out = {}
        for n in self.m.functions:
            c = self.ret_const(n)
            if c is not None:
                out[n] = c
        return out
