"""Contracts for internal parsing helpers, and their verification.

The crypt grid replaces the DES core and two helpers of alg-yescrypt-common.c by contracts; for the two helpers because their loops need a relational
invariant (dst == base + dstpos) that the value domain does not have once lengths are symbolic:

    des_set_key / des_set_salt / des_crypt_block   (contracts in vlib/crypt_grid.py: key schedule, salt bits, 8-byte blocks)
    decode64_uint32 (dst, src, min)          writes *dst (4 bytes); returns NULL or src + 1..6
    yescrypt_decode64 (dst, &dstlen, src, n) writes at most *dstlen bytes at dst; stores a value <= the old *dstlen into
                                              *dstlen; returns NULL or a pointer into the src string at or after src
                                              (NOT bounded by n: when n is not a multiple of 4 the inner `while (srclen--)`
                                              wraps n to SIZE_MAX and decoding continues until a non-alphabet byte - the
                                              callers pass strings that end in '$' or NUL there, so this over-read stays
                                              inside the string; a first version of this contract claimed src + 0..n and
                                              was refuted by the unit cells)

Unlike the digest contracts these are not trusted: every run interprets the real bodies as entry points of their own
("unit cells") with exact buffer sizes and fully unrolled loops (no widening), and the guarantees are compared with what
the contracts claim.  The call sites discharge the contracts' preconditions through the ordinary access checks (the
destination must hold *dstlen bytes; *dstlen must not exceed the largest size verified here)."""
from . import common, xai
from .report import AnalysisBroken

ALL = frozenset(range(256))
A64 = frozenset(b"./0123456789ABCDEFGHIJKLMNOPQRSTUVWXYZabcdefghijklmnopqrstuvwxyz")
MAX_DECODE64_DST = 64

CONTRACTS = {
    "decode64_uint32": [{"op": "write", "ptr": 0, "size": 4, "prov": "setting"}, {"op": "retptr", "ptr": 1, "lo": 1, "hi": 6, "null": True}],
    "yescrypt_decode64": [{"op": "write", "ptr": 0, "lenptr": 1, "prov": "setting", "maxlen": MAX_DECODE64_DST},
                          {"op": "storeint", "ptr": 1, "size": 8, "lo": 0, "lenptr": 1, "prov": "setting"},
                          {"op": "retptr", "ptr": 2, "lo": 0, "hi": 1 << 40, "null": True}],
}


def set_hex(s):
    b = bytearray(32)
    for c in s:
        b[c // 8] |= 1 << (c % 8)
    return b.hex()


def cells(m, tier):
    out, meta = [], {}
    f1 = common.sym(m, "decode64_uint32", required=False)
    f2 = common.sym(m, "yescrypt_decode64", required=False)
    if f1 is None or f2 is None:
        return out, meta
    src = {"name": "src", "kind": "cstr", "bytes": "", "tail": True, "prov": "setting", "tailset": set_hex(ALL), "tailtrack": 100}
    c = xai.simple_cell("U:decode64_uint32", f1.name, [{"name": "dst", "kind": "buf", "size": 4, "uninit": True}, dict(src)],
                        [{"ptr": "dst"}, {"ptr": "src"}, {}])
    out.append(c)
    meta[c["id"]] = {"fn": "decode64_uint32", "ret_lo": 1, "ret_hi": 6}
    sizes = [0, 1, 2, 3, 31, 32, 33, 63, 64] if tier == "quick" else list(range(0, MAX_DECODE64_DST + 1))
    lens = [0, 1, 2, 3, 4, 5, 43, 86, 87, 88, 200] if tier == "quick" else list(range(0, 124)) + [200, 1 << 20, (1 << 64) - 1]
    for L in sizes:
        for n in lens:
            lenbuf = {"name": "lenbuf", "kind": "buf", "size": 8, "bytes": L.to_bytes(8, "little").hex()}
            c = xai.simple_cell("U:decode64:%d:%d" % (L, n), f2.name, [{"name": "dst", "kind": "buf", "size": L, "uninit": True}, lenbuf, dict(src)],
                                [{"ptr": "dst"}, {"ptr": "lenbuf"}, {"ptr": "src"}, {"int": str(n)}])
            out.append(c)
            meta[c["id"]] = {"fn": "yescrypt_decode64", "L": L, "n": n}
    return out, meta


def des_cells(m, tier):
    """the DES core is a contract in the grids (field-precise: key schedule ctx[0..128), salt bits ctx[128..132), 8-byte
    blocks); its bodies are interpreted here with every loop unrolled.  des_crypt_block indexes its S-box tables with
    words derived from the key schedule and the salt bits: it is memory-safe only for subkeys and salt bits below 2^24,
    which is what des_set_key / des_set_salt must establish - both halves are checked."""
    out, meta = [], {}
    fk = common.sym(m, "des_set_key", required=False)
    fs = common.sym(m, "des_set_salt", required=False)
    fb = common.sym(m, "des_crypt_block", required=False)
    if fk is None or fs is None or fb is None:
        return out, meta
    anyb, zero = set_hex(ALL), set_hex({0})
    ctx24 = {"name": "ctx", "kind": "buf", "size": 132, "headsets": [anyb, anyb, anyb, zero] * 33}       # every word < 2^24
    ctxu = {"name": "ctx", "kind": "buf", "size": 132, "uninit": True}
    blk = lambda n, u=False: dict({"name": n, "kind": "buf", "size": 8, "uninit": u}, **({} if u else {"headsets": [anyb] * 8}))
    c = xai.simple_cell("U:des_set_key", fk.name, [dict(ctxu), blk("key")], [{"ptr": "ctx"}, {"ptr": "key"}])
    out.append(c); meta[c["id"]] = {"fn": "des_set_key", "words": range(0, 32)}
    for salt in ([0, 1, 0xffffff, 0x555555, 0x800000] if tier == "quick" else [0, 1, 2, 0xffffff, 0x555555, 0xaaaaaa, 0x800000, 0x1000000, 0xffffffff]):
        c = xai.simple_cell("U:des_set_salt:%x" % salt, fs.name, [dict(ctxu)], [{"ptr": "ctx"}, {"int": str(salt)}])
        out.append(c); meta[c["id"]] = {"fn": "des_set_salt", "words": range(32, 33)}
    counts = [0, 1, 2, 3, 25] if tier == "quick" else [0, 1, 2, 3, 4, 5, 13, 25, 26, 725]
    for cnt in counts:
        for dec in (0, 1):
            c = xai.simple_cell("U:des_crypt_block:%d:%d" % (cnt, dec), fb.name, [dict(ctx24), blk("out", True), blk("in")],
                                [{"ptr": "ctx"}, {"ptr": "out"}, {"ptr": "in"}, {"int": str(cnt)}, {"int": str(dec)}])
            out.append(c); meta[c["id"]] = {"fn": "des_crypt_block", "count": cnt, "decrypt": dec}
    return out, meta


DES_CONFIG = {"maxPaths": 20000, "maxSteps": 8000000, "widenAfter": 100000, "forkyLoop": 100000, "longLoop": 100000, "ptrWidenAfter": 100000, "longLoopSteps": 1 << 40,
              "trackInit": True, "reportRegion": "ctx", "reportLimit": 132, "track": 256}

CONFIG = {"maxPaths": 20000, "maxSteps": 4000000, "widenAfter": 100000, "forkyLoop": 100000, "longLoop": 100000, "ptrWidenAfter": 100000, "longLoopSteps": 1 << 40,
          "trackInit": True, "reportRegion": "lenbuf", "reportLimit": 8, "track": 128}

_CACHE = {}


def run(tier="quick"):
    if tier in _CACHE:
        return _CACHE[tier]
    m, info = common.prog("shared")
    cs, meta = cells(m, tier)
    res = xai.run_cells(info["bc"], cs, dict(CONFIG)) if cs else {}
    dc, dmeta = des_cells(m, tier)
    if dc:
        res.update(xai.run_cells(info["bc"], dc, dict(DES_CONFIG)))
        meta.update(dmeta)
    _CACHE[tier] = {"res": res, "meta": meta, "present": bool(cs)}
    return _CACHE[tier]


def oracle(chk, u):
    chk.rule("U-CONTRACT", "the bodies of the contracted parsing helpers, interpreted with exact sizes and fully unrolled loops, stay inside their buffers and return only what their contracts claim")
    if not u["present"]:
        chk.distinct.add(("U-CONTRACT", "yescrypt helpers not compiled in"))
        return
    n = 0
    for cid, c in sorted(u["res"].items()):
        mt = u["meta"][cid]
        if c["budget"]:
            raise AnalysisBroken("unit cell %s exhausted its budget" % cid)
        rets = 0
        for p in c["paths"]:
            for a in p["alarms"]:
                if a["kind"] in ("MODEL", "BUDGET"):
                    raise AnalysisBroken("unit cell %s: %s" % (cid, a["msg"]))
                chk.fail("U-CONTRACT", "%s|%s@%s:%d" % (cid, a["kind"], a["fn"], a["line"]), "%s in %s (line %d) when interpreted on its own: %s" % (a["kind"], a["fn"], a["line"], a["msg"]), "%s:%d" % (a["fn"], a["line"]), {"cell": cid})
            r = p["ret"]
            ok = False
            if mt["fn"].startswith("des_"):
                ok = True          # void functions: the obligations are the memory accesses (alarms above)
            elif r == "null":
                ok = True
            elif r.startswith("ptr:src+"):
                lo, _, hi = r[len("ptr:src+"):].rstrip("?").partition("..")
                lo, hi = int(lo), int(hi or lo)
                if mt["fn"] == "decode64_uint32":
                    ok = mt["ret_lo"] <= lo and hi <= mt["ret_hi"]
                else:
                    ok = 0 <= lo
            if not ok:
                chk.fail("U-CONTRACT", "%s|ret" % cid, "%s returns %s, outside what its contract claims" % (mt["fn"], r), "lib/alg-yescrypt-common.c", {"cell": cid})
            if mt["fn"] == "des_crypt_block" and p.get("wrote"):
                # the contract every grid uses (and the setkey/encrypt API relies on: one setkey, any number of encrypt calls in
                # either direction) says the block function only reads the context
                chk.fail("U-CONTRACT", "%s|ctx-write" % cid, "des_crypt_block (count %d, decrypt %d) stores into the DES context it is given: the key schedule and salt bits set by des_set_key / des_set_salt must still be the ones the next block operation sees, and the contract the grids use declares the context read-only" % (mt["count"], mt["decrypt"]), "lib/alg-des.c", {"cell": cid})
            if mt["fn"] in ("des_set_key", "des_set_salt") and not p.get("wrote"):
                raise AnalysisBroken("unit cell %s: the store of %s into the context was not seen (write detection is blind)" % (cid, mt["fn"]))
            if mt["fn"] in ("des_set_key", "des_set_salt"):
                # post-condition that des_crypt_block's table indexing relies on: every word written is below 2^24
                outc = p.get("out", [])
                sc = {x[0]: x for x in p.get("scalars", []) if x[1] == 4}
                for wd in mt["words"]:
                    hi = None
                    if wd * 4 in sc and sc[wd * 4][3] != "any":
                        hi = int(sc[wd * 4][3])
                    elif len(outc) > wd * 4 + 3:
                        hi = sum(max(outc[wd * 4 + i][0]) << (8 * i) for i in range(4))
                    if hi is None or hi >= 1 << 24:
                        chk.fail("U-CONTRACT", "%s|word%d" % (cid, wd), "%s may leave %s in word %d of the DES context: des_crypt_block indexes its tables with it and needs it below 2^24" % (mt["fn"], "an unknown value" if hi is None else hex(hi), wd), "lib/alg-des.c", {"cell": cid})
                        break
            if mt["fn"] == "yescrypt_decode64":
                # *dstlen afterwards: the 8-byte scalar at offset 0 of lenbuf, or (never stored to) its initial bytes
                sc = [x for x in p.get("scalars", []) if x[0] == 0 and x[1] == 8]
                if sc:
                    val_hi = None if sc[0][3] == "any" else int(sc[0][3])
                else:
                    val_hi = None if p.get("wrote") else mt["L"]
                if val_hi is None or val_hi > mt["L"]:
                    chk.fail("U-CONTRACT", "%s|dstlen" % cid, "yescrypt_decode64 may leave %s in *dstlen, more than the %d it was given" % (val_hi, mt["L"]), "lib/alg-yescrypt-common.c", {"cell": cid})
            rets += 1
        if rets < 1:
            raise AnalysisBroken("unit cell %s produced %d paths" % (cid, rets))
        chk.count("U-CONTRACT", rets, [cid])
        n += 1
    if n < 5:
        raise AnalysisBroken("only %d contract-verification cells ran" % n)
