"""Contracts for internal parsing helpers, and their verification.

The crypt grid replaces two helpers of alg-yescrypt-common.c by contracts, because their loops need a relational
invariant (dst == base + dstpos) that the value domain does not have once lengths are symbolic:

    decode64_uint32 (dst, src, min)          writes *dst (4 bytes); returns NULL or src + 1..6
    yescrypt_decode64 (dst, &dstlen, src, n) writes at most *dstlen bytes at dst; stores a value <= the old *dstlen into
                                              *dstlen; returns NULL or a pointer into the src string at or after src
                                              (NOT bounded by n: when n is not a multiple of 4 the inner `while (srclen--)`
                                              wraps n to SIZE_MAX and decoding continues until a non-alphabet byte - the
                                              callers pass strings that end in '$' or NUL there, so this over-read stays
                                              inside the string; a first version of this contract claimed src + 0..n and
                                              was refuted by the unit cells)

Unlike the digest contracts these are not trusted: every run interprets the real bodies as entry points of their own
("unit cells") with exact buffer sizes and fully unrolled loops (no widening), and the guarantees are compared with what
the contracts claim.  The call sites discharge the contracts' preconditions through the ordinary access checks (the
destination must hold *dstlen bytes; *dstlen must not exceed the largest size verified here)."""
from . import common, xai
from .report import AnalysisBroken

ALL = frozenset(range(256))
A64 = frozenset(b"./0123456789ABCDEFGHIJKLMNOPQRSTUVWXYZabcdefghijklmnopqrstuvwxyz")
MAX_DECODE64_DST = 64

CONTRACTS = {
    "decode64_uint32": [{"op": "write", "ptr": 0, "size": 4, "prov": "setting"}, {"op": "retptr", "ptr": 1, "lo": 1, "hi": 6, "null": True}],
    "yescrypt_decode64": [{"op": "write", "ptr": 0, "lenptr": 1, "prov": "setting", "maxlen": MAX_DECODE64_DST},
                          {"op": "storeint", "ptr": 1, "size": 8, "lo": 0, "lenptr": 1, "prov": "setting"},
                          {"op": "retptr", "ptr": 2, "lo": 0, "hi": 1 << 40, "null": True}],
}


def set_hex(s):
    b = bytearray(32)
    for c in s:
        b[c // 8] |= 1 << (c % 8)
    return b.hex()


def cells(m, tier):
    out, meta = [], {}
    f1 = common.sym(m, "decode64_uint32", required=False)
    f2 = common.sym(m, "yescrypt_decode64", required=False)
    if f1 is None or f2 is None:
        return out, meta
    src = {"name": "src", "kind": "cstr", "bytes": "", "tail": True, "prov": "setting", "tailset": set_hex(ALL), "tailtrack": 100}
    c = xai.simple_cell("U:decode64_uint32", f1.name, [{"name": "dst", "kind": "buf", "size": 4, "uninit": True}, dict(src)],
                        [{"ptr": "dst"}, {"ptr": "src"}, {}])
    out.append(c)
    meta[c["id"]] = {"fn": "decode64_uint32", "ret_lo": 1, "ret_hi": 6}
    sizes = [0, 1, 2, 3, 31, 32, 33, 63, 64] if tier == "quick" else list(range(0, MAX_DECODE64_DST + 1))
    lens = [0, 1, 2, 3, 4, 5, 43, 86, 87, 88, 200] if tier == "quick" else list(range(0, 124)) + [200, 1 << 20, (1 << 64) - 1]
    for L in sizes:
        for n in lens:
            lenbuf = {"name": "lenbuf", "kind": "buf", "size": 8, "bytes": L.to_bytes(8, "little").hex()}
            c = xai.simple_cell("U:decode64:%d:%d" % (L, n), f2.name, [{"name": "dst", "kind": "buf", "size": L, "uninit": True}, lenbuf, dict(src)],
                                [{"ptr": "dst"}, {"ptr": "lenbuf"}, {"ptr": "src"}, {"int": str(n)}])
            out.append(c)
            meta[c["id"]] = {"fn": "yescrypt_decode64", "L": L, "n": n}
    return out, meta


CONFIG = {"maxPaths": 20000, "maxSteps": 4000000, "widenAfter": 100000, "forkyLoop": 100000, "longLoop": 100000, "ptrWidenAfter": 100000, "longLoopSteps": 1 << 40,
          "trackInit": True, "reportRegion": "lenbuf", "reportLimit": 8, "track": 128}

_CACHE = {}


def run(tier="quick"):
    if tier in _CACHE:
        return _CACHE[tier]
    m, info = common.prog("shared")
    cs, meta = cells(m, tier)
    res = xai.run_cells(info["bc"], cs, dict(CONFIG)) if cs else {}
    _CACHE[tier] = {"res": res, "meta": meta, "present": bool(cs)}
    return _CACHE[tier]


def oracle(chk, u):
    chk.rule("U-CONTRACT", "the bodies of the contracted parsing helpers, interpreted with exact sizes and fully unrolled loops, stay inside their buffers and return only what their contracts claim")
    if not u["present"]:
        chk.distinct.add(("U-CONTRACT", "yescrypt helpers not compiled in"))
        return
    n = 0
    for cid, c in sorted(u["res"].items()):
        mt = u["meta"][cid]
        if c["budget"]:
            raise AnalysisBroken("unit cell %s exhausted its budget" % cid)
        rets = 0
        for p in c["paths"]:
            for a in p["alarms"]:
                if a["kind"] in ("MODEL", "BUDGET"):
                    raise AnalysisBroken("unit cell %s: %s" % (cid, a["msg"]))
                chk.fail("U-CONTRACT", "%s|%s@%s:%d" % (cid, a["kind"], a["fn"], a["line"]), "%s in %s (line %d) when interpreted on its own: %s" % (a["kind"], a["fn"], a["line"], a["msg"]), "%s:%d" % (a["fn"], a["line"]), {"cell": cid})
            r = p["ret"]
            ok = False
            if r == "null":
                ok = True
            elif r.startswith("ptr:src+"):
                lo, _, hi = r[len("ptr:src+"):].rstrip("?").partition("..")
                lo, hi = int(lo), int(hi or lo)
                if mt["fn"] == "decode64_uint32":
                    ok = mt["ret_lo"] <= lo and hi <= mt["ret_hi"]
                else:
                    ok = 0 <= lo
            if not ok:
                chk.fail("U-CONTRACT", "%s|ret" % cid, "%s returns %s, outside what its contract claims" % (mt["fn"], r), "lib/alg-yescrypt-common.c", {"cell": cid})
            if mt["fn"] == "yescrypt_decode64":
                # *dstlen afterwards: the 8-byte scalar at offset 0 of lenbuf, or (never stored to) its initial bytes
                sc = [x for x in p.get("scalars", []) if x[0] == 0 and x[1] == 8]
                if sc:
                    val_hi = None if sc[0][3] == "any" else int(sc[0][3])
                else:
                    val_hi = None if p.get("wrote") else mt["L"]
                if val_hi is None or val_hi > mt["L"]:
                    chk.fail("U-CONTRACT", "%s|dstlen" % cid, "yescrypt_decode64 may leave %s in *dstlen, more than the %d it was given" % (val_hi, mt["L"]), "lib/alg-yescrypt-common.c", {"cell": cid})
            rets += 1
        if rets < 1:
            raise AnalysisBroken("unit cell %s produced %d paths" % (cid, rets))
        chk.count("U-CONTRACT", rets, [cid])
        n += 1
    if n < 5:
        raise AnalysisBroken("only %d contract-verification cells ran" % n)
