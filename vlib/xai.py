"""Driver for the XAI abstract interpreter: scenario generation, parallel runs, result decoding."""
import json, os, subprocess, tempfile, shutil
from concurrent.futures import ThreadPoolExecutor
from . import front
from .report import AnalysisBroken

XAI = os.path.join(front.BUILD, "xai")
INT_MIN, INT_MAX = -(1 << 31), (1 << 31) - 1
ULONG_MAX = (1 << 64) - 1

P_RBYTES, P_SETTING, P_DIGEST, P_COUNT, P_SIZE, P_PHRASE, P_UNINIT, P_OTHER = 1, 2, 4, 8, 16, 32, 64, 128


def hexs(b):
    return b.hex()


def run_cells(bc, cells, config, jobs=16, chunk=None):
    """run cells (list of dicts) through xai in parallel; returns dict id -> cell result (with decoded sets)"""
    if not os.path.exists(XAI):
        raise AnalysisBroken("build/xai missing: run setup (make -C /verif/src)")
    if not cells:
        return {}
    chunk = chunk or max(1, (len(cells) + jobs * 4 - 1) // (jobs * 4))
    parts = [cells[i:i + chunk] for i in range(0, len(cells), chunk)]
    tmp = tempfile.mkdtemp(prefix="verif-xai-")
    out = {}

    def one(i):
        p = os.path.join(tmp, "s%d.json" % i)
        with open(p, "w") as f:
            json.dump({"config": config, "cells": parts[i]}, f)
        r = subprocess.run([XAI, bc, p], stdout=subprocess.PIPE, stderr=subprocess.PIPE)
        if r.returncode != 0:
            raise AnalysisBroken("xai failed (rc=%d): %s" % (r.returncode, r.stderr.decode(errors="replace")[-800:]))
        return json.loads(r.stdout)
    try:
        with ThreadPoolExecutor(jobs) as ex:
            for res in ex.map(one, range(len(parts))):
                sets = [decode_set(s) for s in res["sets"]]
                for c in res["cells"]:
                    if "error" in c:
                        raise AnalysisBroken("xai cell %s: %s" % (c["id"], c["error"]))
                    for p in c["paths"]:
                        if "out" in p:
                            p["out"] = [(sets[i], prov) for i, prov in p["out"]]
                        p["roots"] = [(int(a), int(b)) for a, b in p["roots"]]
                        if "wset" in p:
                            p["wset"] = sorted(decode_set(p["wset"]))
                    out[c["id"]] = c
    finally:
        shutil.rmtree(tmp, ignore_errors=True)
    return out


def decode_set(hx):
    b = bytes.fromhex(hx)
    s = set()
    for i in range(32):
        v = b[i]
        for k in range(8):
            if v & (1 << k):
                s.add(i * 8 + k)
    return frozenset(s)


def out_string(out):
    """(definite string or None, length range, list of sets) of a reported buffer"""
    chars = []
    for s, prov in out:
        if s == frozenset([0]):
            break
        chars.append((s, prov))
    terminated = bool(out) and out[min(len(chars), len(out) - 1)][0] == frozenset([0]) and len(chars) < len(out)
    return chars, terminated


def show(chars):
    o = ""
    for s, prov in chars:
        if len(s) == 1:
            c = next(iter(s))
            o += chr(c) if 32 <= c < 127 else "\\x%02x" % c
        else:
            o += "?"
    return o


# ---- gensalt scenarios -------------------------------------------------------

def gensalt_cell(cid, entry, prefix, nrbytes, rbytes_null=False, count=(0, ULONG_MAX), outsize=(INT_MIN, INT_MAX),
                 prefix_tail=False):
    """prefix: bytes or None (NULL). nrbytes: (lo,hi)."""
    roots = [{"name": "count", "unsigned": True, "lo": str(count[0]), "hi": str(count[1]), "prov": "count"},
             {"name": "nrbytes", "lo": nrbytes[0], "hi": nrbytes[1]},
             {"name": "outsize", "lo": outsize[0], "hi": outsize[1], "prov": "size"}]
    regions = [{"name": "output", "kind": "buf", "size_root": 2, "prov": "other"}]
    args = []
    if prefix is None:
        args.append({"null": True})
    else:
        regions.append({"name": "prefix", "kind": "cstr", "bytes": hexs(prefix), "tail": bool(prefix_tail), "tailtrack": 8 if prefix_tail else 0, "prov": "setting"})
        args.append({"ptr": "prefix"})
    args.append({"root": 0})
    if rbytes_null:
        args.append({"null": True})
    else:
        regions.append({"name": "rbytes", "kind": "buf", "size_root": 1, "prov": "rbytes"})
        args.append({"ptr": "rbytes"})
    args += [{"root": 1}, {"ptr": "output"}, {"root": 2}]
    return {"id": cid, "entry": entry, "roots": roots, "regions": regions, "args": args}


def cstr_region(name, data, tail=False, prov="setting", **kw):
    r = {"name": name, "kind": "cstr", "bytes": hexs(data), "tail": bool(tail), "prov": prov}
    r.update(kw)
    return r


def simple_cell(cid, entry, regions, args, roots=()):
    return {"id": cid, "entry": entry, "roots": list(roots), "regions": regions, "args": args}
